package zsimrt

import (
	"fmt"
	"iter"
	"reflect"
	"sort"
)

// Map iteration order is a source of nondeterminism the Go runtime randomises
// per process. The instrumenter rewrites `range m` over a map inside library
// files to `range zsimrt.MapSeq(m)`, so that the SIMULATOR owns the order: keys
// are sorted and then permuted by a PRNG derived from one seed and a call
// counter. The seed is part of the scenario inside a simulated run (replayable)
// and is set per solo pass by the harness (two different seeds, so a result
// that depends on map order differs between the passes deterministically).

var (
	mapSeed  uint64
	mapCalls uint64
	// MapRanges counts MapSeq iterations (evidence).
	MapRanges uint64
)

// SetMapSeed sets the order seed and resets the call counter.
//
//go:norace
func SetMapSeed(s uint64) { mapSeed = s; mapCalls = 0 }

//go:norace
func nextMapRand() *Rand {
	mapCalls++
	MapRanges++
	return NewRand(mapSeed ^ mapCalls*0x9e3779b97f4a7c15)
}

// MapSeq iterates m in the simulator-chosen order. Entries deleted during the
// iteration are skipped; entries added during it are not visited (both allowed
// by the language specification).
func MapSeq[M ~map[K]V, K comparable, V any](m M) iter.Seq2[K, V] {
	return func(yield func(K, V) bool) {
		if len(m) == 0 {
			return
		}
		keys := make([]K, 0, len(m))
		for k := range m {
			keys = append(keys, k)
		}
		sortKeys(keys)
		r := nextMapRand()
		if mapSeed != 0 {
			for i := len(keys) - 1; i > 0; i-- {
				j := r.Intn(i + 1)
				keys[i], keys[j] = keys[j], keys[i]
			}
		}
		for _, k := range keys {
			v, ok := m[k]
			if !ok {
				continue
			}
			if !yield(k, v) {
				return
			}
		}
	}
}

func sortKeys[K comparable](keys []K) {
	if len(keys) < 2 {
		return
	}
	switch reflect.TypeOf(keys[0]).Kind() {
	case reflect.Int, reflect.Int8, reflect.Int16, reflect.Int32, reflect.Int64:
		sort.Slice(keys, func(i, j int) bool { return reflect.ValueOf(keys[i]).Int() < reflect.ValueOf(keys[j]).Int() })
	case reflect.Uint, reflect.Uint8, reflect.Uint16, reflect.Uint32, reflect.Uint64, reflect.Uintptr:
		sort.Slice(keys, func(i, j int) bool { return reflect.ValueOf(keys[i]).Uint() < reflect.ValueOf(keys[j]).Uint() })
	case reflect.String:
		sort.Slice(keys, func(i, j int) bool { return reflect.ValueOf(keys[i]).String() < reflect.ValueOf(keys[j]).String() })
	case reflect.Float32, reflect.Float64:
		sort.Slice(keys, func(i, j int) bool { return reflect.ValueOf(keys[i]).Float() < reflect.ValueOf(keys[j]).Float() })
	default:
		// pointers and composite keys: order by printed form with addresses as a
		// last resort (not stable across processes; noted as residual nondeterminism)
		sort.Slice(keys, func(i, j int) bool { return fmt.Sprintf("%#v", keys[i]) < fmt.Sprintf("%#v", keys[j]) })
	}
}
