// Package zsimrt is the run-time half of the C14 simulator. It is copied into a
// scratch copy of the repository (never into /repo) next to library files in
// which the instrumenter has spliced `zsimrt.Y(site); ` before every statement.
//
// Model: caller "tasks" are real goroutines, but exactly one of them — the baton
// holder `cur` — executes library code at any time; the others spin on a plain
// variable. Every function that touches scheduler state is //go:norace and the
// baton is a plain variable, so the race detector sees no synchronisation
// between tasks other than what a production program would have (goroutine
// start, final join, and whatever sync/atomic the library and the standard
// library really perform). The execution is nevertheless fully serialised and
// every choice is taken from one seeded PRNG (or from a recorded decision list
// when replaying).
//
// Nothing in here reads a clock or uses math/rand.
package zsimrt

import (
	"runtime"
	"sync"
	"sync/atomic"
)

// MaxTasks bounds the number of tasks in one simulated run: the caller tasks of the
// scenario (at most 14) plus the goroutines the library itself starts (go.go).
const MaxTasks = 256

// Scheduling policies.
const (
	PolUniform  = iota // decision points at random gaps, uniform choice among runnable tasks
	PolPCT             // PCT: random priorities, d-1 priority change points
	PolSingle          // one preemption: A runs to a drawn step, then everybody else, then A finishes
	PolRR              // round robin with fixed quantum
	PolTargeted        // like uniform, but decision points only at sites that touch shared-looking state
	PolSync            // decision points only where the current task releases or is about to take a lock; long stalls
	PolPark            // decision points only at statements that mention a package-level variable (and exit yields); long stalls
	PolReplay          // apply a recorded decision list
	NumPolicies = PolReplay
	// PolSolo is the policy of a solo reference pass when the library starts goroutines of
	// its own (solo.go): the caller runs until it blocks or returns, no preemption, no PRNG.
	PolSolo = PolReplay + 1
)

var PolicyNames = [...]string{"uniform", "pct", "single", "rr", "targeted", "sync", "park", "replay"}

// Task status.
const (
	stNotStarted = iota
	stRunnable
	stFinished
)

// Decision kinds.
const (
	DSwitch = 0 // hand the baton to Task at Step
	DGC     = 1 // run a garbage collection at Step
	DClock  = 2 // the simulated clock jumps forward by V nanoseconds at Step
	DSelect = 3 // the select entered at Step by Task tries its case number V first (chan.go)
)

// Decision is one recorded scheduling/fault decision. A list of them is an
// explicit schedule: "at global step Step, do Kind (switch to Task)".
type Decision struct {
	Step uint64 `json:"s"`
	Task int32  `json:"t"`
	Kind uint8  `json:"k,omitempty"`
	V    int64  `json:"v,omitempty"`
	At   uint32 `json:"at,omitempty"` // informational: the yield (site id) at which the running task was preempted; ignored on replay
}

// Config is everything the scheduler needs for one run. The harness fills it in
// from the scenario (which was drawn from the same PRNG, earlier in the stream).
type Config struct {
	Policy  int
	MeanGap int // uniform / targeted: mean number of (eligible) yields between decision points
	Quantum int // rr

	PCTDepth  int
	TotalEst  uint64 // estimated total number of steps of the run (for PCT change points)
	SingleA   int    // PolSingle: the task to interrupt ...
	SingleAt  uint64 // ... after this many of its own steps
	GCPermil  int    // per decision point: probability (‰) of an injected GC
	StallPerm int    // per decision point: probability (‰) of stalling the current task
	StallMean int    // mean stall length in steps (heavy tailed)
	SyncQ     int    // PolSync: a lock release/acquire is a decision point with probability 1/SyncQ
	ClockPerm int    // per decision point: probability (‰) of a clock jump (only meaningful when the library reads the clock)

	Replay []Decision // PolReplay

	StepCap   uint64 // abort the run when the global step counter passes this
	HookEvery uint64 // call StepHook every n-th step (0 = never)
}

// Stats is what one run measured.
type Stats struct {
	Steps       uint64
	Switches    uint64 // context switches (baton changed hands at a yield inside or between operations)
	Preempts    uint64 // of those, switches away from a task that was in the middle of an operation
	Contended   uint64 // of those, the preempted operation's argument was in use by another mid-operation task
	GCs         uint64
	ClockJumps  uint64
	Stalls      uint64 // stall faults started
	StallOps    uint64 // operations completed by other tasks while some task was stalled mid-operation
	SyncPoints  uint64 // lock release/acquire points passed inside operations
	SyncParks   uint64 // of those, the task was parked there (PolSync)
	LockWaits   uint64 // cooperative lock-wait yields (only when the library uses sync)
	Sig         uint64 // hash of the sequence of (from task, site preempted at, to task)
	Overrun     bool   // some operation exceeded its step bound (L2)
	OverrunTask int
	OverrunStep uint64
	Capped      bool   // global step cap reached
	Deadlock    bool   // every unfinished task is waiting for a lock (L1)
	DecOverflow bool   // decision list was truncated (run cannot be replayed from the list, only from the seed)
	TooManyGo   bool   // the library had more goroutines alive at once than there are task slots: the run was wound down and is not judged
	LibGo       uint64 // goroutines started by the library itself and run as simulated tasks (go.go)
	ChanOps     uint64 // channel operations of the library completed inside the simulated run (chan.go)
	ChanWaits   uint64 // ... that had to wait first (cooperatively: the baton went to another task)
}

// Abort is the panic value Y uses to unwind an operation that overran.
type Abort struct{ Why string }

// An Abort panic can be SWALLOWED on its way up: fmt recovers panics raised inside
// String/GoString/Error methods and prints "%!s(PANIC=...)" instead. The harness
// therefore never trusts the result of an operation during which an abort was
// raised; it asks AbortRaised.
var (
	abortRaised     [MaxTasks]bool
	soloAbortRaised bool
)

//go:norace
func raise(why string) {
	if active {
		abortRaised[cur] = true
	} else {
		soloAbortRaised = true
	}
	panic(Abort{why})
}

// AbortRaised reports whether an abort was raised in the current task's current
// operation (simulated run) or since the last CountBegin (solo pass).
//
//go:norace
func AbortRaised() bool {
	if soloOn {
		return abortRaised[0] || soloAbortRaised
	}
	if active {
		return abortRaised[cur]
	}
	return soloAbortRaised
}

const maxDecisions = 1 << 18

var (
	active bool
	quiet  int
	cur    int32
	nTasks int
	status [MaxTasks]uint8

	step      uint64
	countdown int64
	cfg       Config
	rng       *Rand
	stats     Stats
	decisions []Decision
	replayIdx int

	inOp      [MaxTasks]bool
	opStep    [MaxTasks]uint64
	opLimit   [MaxTasks]uint64
	curObj    [MaxTasks]int32
	tsteps    [MaxTasks]uint64
	stalled   [MaxTasks]uint64 // stalled until this global step (0 = not stalled)
	lockWait  [MaxTasks]bool
	waitEpoch [MaxTasks]uint64
	lockEpoch uint64

	pctPrio   [MaxTasks]int
	pctChange []uint64
	pctIdx    int
	pctLow    int

	singleDone bool

	allDone  bool
	aborting bool

	// goroutines the library starts itself (go.go)
	nScen          int // caller tasks of the scenario: slots 0..nScen-1; library goroutines take the slots above
	isChild        [MaxTasks]bool
	orphanDeadline uint64 // != 0: every caller task has finished; library goroutines may run until this step

	// StepHook, when non-nil and Config.HookEvery > 0, is called from Y on the
	// current task's goroutine. It must not call instrumented code unless it
	// brackets the call with Quiet.
	StepHook func()

	// Spawner starts a goroutine for a task; set by Run.
	body func(task int)
	done [MaxTasks]chan struct{}

	// SiteHits counts how often each site executed as a step during simulated
	// runs (for the "sites never reached" evidence). Sized by the generated table.
	SiteHits []uint64
	// PairSeen is a bitmap over (preempted-at site, resumed task's site) pairs, hashed.
	pairBits [1 << 16]uint64
	lastSite [MaxTasks]uint32
)

var candNext, candPark, candDecide, candHand, candOK [MaxTasks]int32

// Special site ids used by the harness and the sync shim (not library statements).
const (
	SiteOpBegin  = 0xFFFFFFF0
	SiteOpEnd    = 0xFFFFFFF1
	SiteCallback = 0xFFFFFFF2
	SiteLockWait = 0xFFFFFFF3
	SiteExit     = 0xFFFFFFF4
	SiteStart    = 0xFFFFFFF5
	SiteSync     = 0xFFFFFFF6
	SiteAtomic   = 0xFFFFFFF7 // a sync/atomic operation (through the zatomic shim)
)

// Active reports whether a simulated run is in progress.
//
//go:norace
func Active() bool { return active }

// Cur is the task holding the baton (only meaningful while Active).
//
//go:norace
func Cur() int { return int(cur) }

// Quiet makes Y a no-op while the harness itself calls library code for its own
// book-keeping (fingerprints at operation boundaries).
//
//go:norace
func Quiet(on bool) {
	if on {
		quiet++
	} else {
		if quiet == 1 && liveReal.Load() != 0 {
			// library code called under Quiet started goroutines of its own (plain ones): they
			// must be gone before yields mean something again
			if !waitReal() && active {
				aborting = true
			}
		}
		quiet--
	}
}

// Counting support for the solo reference pass: when counting is on and no
// simulation is active, Y only counts (and enforces a cap).
var (
	counting    bool
	countPaused bool
	count       uint64
	countCap    uint64
)

//go:norace
func CountBegin(cap uint64) {
	if OwnsGo && Instrumented && !free {
		soloBegin(cap)
		return
	}
	counting = true
	countPaused = false
	count = 0
	countCap = cap
	soloAbortRaised = false
}

func CountEnd() uint64 {
	if soloIsOn() {
		return soloEnd()
	}
	return countEnd()
}

//go:norace
func countEnd() uint64 { counting = false; return count }

// CountPause suspends counting (result canonicalisation is not part of an operation).
func CountPause(on bool) {
	if soloIsOn() {
		soloPause(on)
		return
	}
	countPause(on)
}

//go:norace
func countPause(on bool) { countPaused = on }

// Y is the yield the instrumenter inserts before every library statement.
//
//go:norace
func Y(site uint32) {
	if !active {
		if counting && !countPaused {
			count++
			clockSteps++
			if count > countCap {
				counting = false
				raise("solo step cap")
			}
		}
		return
	}
	if quiet != 0 || soloPaused {
		return
	}
	me := cur
	step++
	clockSteps++
	tsteps[me]++
	if site < uint32(len(SiteHits)) {
		SiteHits[site]++
	}
	lastSite[me] = site
	if aborting {
		raise("run aborted")
	}
	if step > cfg.StepCap {
		stats.Capped = true
		aborting = true
		raise("global step cap")
	}
	if orphanDeadline != 0 && step > orphanDeadline {
		orphaned()
	}
	if inOp[me] {
		opStep[me]++
		if opStep[me] > opLimit[me] {
			if !stats.Overrun {
				stats.Overrun = true
				stats.OverrunTask = int(me)
				stats.OverrunStep = step
			}
			opStep[me] = 0 // let the unwinding make progress
			raise("operation step bound (L2)")
		}
	}
	if cfg.HookEvery != 0 && step%cfg.HookEvery == 0 && StepHook != nil {
		quiet++
		StepHook()
		quiet--
	}
	if cfg.Policy == PolSolo {
		return
	}
	if cfg.Policy == PolReplay {
		replayStep(site)
		return
	}
	if cfg.Policy == PolTargeted && site < uint32(len(Sites)) && Sites[site].Flags == 0 {
		return
	}
	if cfg.Policy == PolPCT {
		pctStep(site)
		return
	}
	if cfg.Policy == PolSingle {
		singleStep(site)
		return
	}
	if cfg.Policy == PolSync {
		return // decision points are the sync points only (and task exits)
	}
	if cfg.Policy == PolPark {
		// park the task right where it touches process-wide state (a package-level
		// variable) or has just run its deferred calls, and let the others complete
		// whole operations meanwhile: first-use initialisation, counters, try-locks
		if inOp[me] {
			q := cfg.SyncQ
			if q < 1 {
				q = 1
			}
			hot := site == SiteAtomic
			cold := false
			if site < uint32(len(Sites)) {
				f := Sites[site].Flags
				hot = f&(FlagHotGlobal|FlagExit) != 0
				cold = !hot && f&FlagGlobal != 0
			}
			// hot: atomics, writes to / method calls on package-level state, exit yields;
			// cold: statements that merely mention a package-level variable (mostly table reads)
			if hot && rng.Intn(q) == 0 || cold && rng.Intn(q*16) == 0 {
				park(site)
			}
		}
		return
	}
	countdown--
	if countdown > 0 {
		return
	}
	decide(site)
}

// YieldLock is called by the sync shim when the current task cannot take a lock:
// the baton must go to some other runnable task.
//
//go:norace
func YieldLock() {
	if !active || quiet != 0 || soloPaused {
		runtime.Gosched()
		return
	}
	me := cur
	step++
	stats.LockWaits++
	if aborting {
		panic(Abort{"run aborted"})
	}
	if step > cfg.StepCap {
		stats.Capped = true
		aborting = true
		panic(Abort{"global step cap"})
	}
	if orphanDeadline != 0 && step > orphanDeadline {
		orphaned()
	}
	lockWait[me] = true
	waitEpoch[me] = lockEpoch
	// deadlock: every unfinished task failed to get what it waits for since the
	// last change of any lock / condition / wait group
	dead := true
	for i := 0; i < nTasks; i++ {
		if status[i] == stRunnable && !(lockWait[i] && waitEpoch[i] == lockEpoch) {
			dead = false
		}
	}
	if dead {
		callers := false
		for i := 0; i < nScen; i++ {
			if status[i] == stRunnable && !(soloOn && soloJoining) {
				callers = true
			}
		}
		aborting = true
		lockWait[me] = false
		if !callers {
			// only goroutines started by the library are left and none of them can go on: they were
			// left behind blocked (a leak, not a deadlock of callers). A production process just
			// carries them along; the simulator cannot, run after run.
			poison("goroutines started by the library were left behind blocked after every call had returned")
			panic(Abort{"library goroutines left behind blocked"})
		}
		stats.Deadlock = true
		panic(Abort{"deadlock: every unfinished task waits for a lock"})
	}
	if cfg.Policy == PolReplay {
		if !replayForced(SiteLockWait) {
			switchTo(nextOther(me), SiteLockWait)
		}
	} else {
		switchTo(nextOther(me), SiteLockWait)
	}
	lockWait[me] = false
}

// SyncPoint is called by the sync shim right after the current task released a
// lock and right before it tries to take one. The window between a release and
// the next acquire is where a correctly locked but non-atomic sequence can be
// broken, so PolSync places its preemptions exactly here and parks the task for
// a long time while the others complete whole operations.
//
//go:norace
func SyncPoint() {
	if !active || quiet != 0 || soloPaused {
		return
	}
	me := cur
	step++
	if aborting {
		return // unwinding: never panic out of an unlock
	}
	if inOp[me] {
		stats.SyncPoints++
	}
	if cfg.Policy == PolReplay {
		replayStep(SiteSync)
		return
	}
	if cfg.Policy != PolSync || !inOp[me] {
		return
	}
	q := cfg.SyncQ
	if q < 1 {
		q = 1
	}
	if rng.Intn(q) != 0 {
		return
	}
	park(SiteSync)
}

// park freezes the current task for a long time (until nobody else can run, or a
// heavy-tailed number of steps) and hands the baton to another runnable task.
//
//go:norace
func park(site uint32) {
	me := cur
	cand := &candNext // package-level scratch: consumed before the baton moves
	n := 0
	for i := 0; i < nTasks; i++ {
		if int32(i) != me && status[i] == stRunnable && stalled[i] <= step {
			cand[n] = int32(i)
			n++
		}
	}
	if n == 0 {
		return
	}
	stats.SyncParks++
	stats.Stalls++
	if rng.Intn(2) == 0 {
		stalled[me] = ^uint64(0) >> 1 // until nobody else can run
	} else {
		l := uint64(200 + rng.Intn(4000))
		if rng.Intn(4) == 0 {
			l *= 16
		}
		stalled[me] = step + l
	}
	switchTo(cand[rng.Intn(n)], site)
}

// LockEvent tells the scheduler that some lock, condition or wait group changed
// state (acquired, released, signalled): waiting tasks are worth retrying.
//
//go:norace
func LockEvent() {
	if active {
		lockEpoch++
	}
}

//go:norace
func nextOther(me int32) int32 {
	// Who gets the baton when the current task cannot go on? First choice: tasks that are not
	// waiting themselves; second: waiting tasks for which something changed since they last
	// looked (a lock event after their last attempt) — they are worth retrying; last: anybody.
	// Chosen by the PRNG when there is one; otherwise (solo passes, replays) the first such task
	// AFTER the current one in cyclic order, so that nobody starves.
	cand := &candNext // package-level scratch: consumed before the baton moves
	n := 0
	for pass := 0; pass < 3 && n == 0; pass++ {
		for k := 1; k < nTasks; k++ {
			i := (int(me) + k) % nTasks
			if status[i] != stRunnable {
				continue
			}
			switch pass {
			case 0:
				if lockWait[i] {
					continue
				}
			case 1:
				if waitEpoch[i] == lockEpoch {
					continue
				}
			}
			cand[n] = int32(i)
			n++
		}
	}
	if n == 0 {
		return me
	}
	if cfg.Policy == PolReplay || rng == nil {
		return cand[0]
	}
	return cand[rng.Intn(n)]
}

//go:norace
func runnable(out *[MaxTasks]int32, skipStalled bool) int {
	n := 0
	for i := 0; i < nTasks; i++ {
		if status[i] != stRunnable {
			continue
		}
		if skipStalled && stalled[i] > step {
			continue
		}
		out[n] = int32(i)
		n++
	}
	return n
}

//go:norace
func drawGap() int64 {
	m := cfg.MeanGap
	if m < 1 {
		m = 1
	}
	g := int64(1 + rng.Intn(2*m-1+1)) // 1..2m, mean ≈ m
	if rng.Intn(8) == 0 {
		g *= 8 // heavy tail
	}
	return g
}

// decide is a decision point of the uniform / targeted / rr policies.
//
//go:norace
func decide(site uint32) {
	me := cur
	if cfg.Policy == PolRR {
		countdown = int64(cfg.Quantum)
		nxt := me
		for k := 1; k <= nTasks; k++ {
			c := (int(me) + k) % nTasks
			if status[c] == stRunnable {
				nxt = int32(c)
				break
			}
		}
		faults(site)
		if nxt != me {
			switchTo(nxt, site)
		}
		return
	}
	countdown = drawGap()
	faults(site)
	// stall fault: freeze the current task, mid-operation, for a heavy-tailed number of steps
	if cfg.StallPerm > 0 && inOp[me] && stalled[me] <= step && rng.Intn(1000) < cfg.StallPerm {
		n := uint64(1 + rng.Intn(2*cfg.StallMean+1))
		if rng.Intn(4) == 0 {
			n *= 16
		}
		stalled[me] = step + n
		stats.Stalls++
	}
	cand := &candDecide // package-level scratch: consumed before the baton moves
	n := runnable(cand, true)
	if n == 0 {
		// everybody stalled: lift the stall that expires first
		best := int32(-1)
		for i := 0; i < nTasks; i++ {
			if status[i] == stRunnable && (best < 0 || stalled[i] < stalled[best]) {
				best = int32(i)
			}
		}
		if best < 0 {
			return
		}
		stalled[best] = 0
		cand[0] = best
		n = 1
	}
	nxt := cand[rng.Intn(n)]
	if nxt != me {
		switchTo(nxt, site)
	}
}

// ---- simulated clock (read by the ztime shim) ---------------------------------------

var (
	clockBase  int64  // nanoseconds added by jumps and by the harness between passes
	clockSteps uint64 // one microsecond per step, in simulated runs and in solo passes alike
	// ClockReads counts Now() calls (evidence: did the library read the clock at all?).
	ClockReads uint64
)

// ClockNanos is the simulated time since the epoch of the simulated clock.
//
//go:norace
func ClockNanos() int64 {
	ClockReads++
	clockSteps++ // a clock read is itself an event: two reads never return the same instant
	return clockBase + int64(clockSteps)*1000
}

// ClockAdvance moves the simulated clock forward (harness: between passes).
//
//go:norace
func ClockAdvance(d int64) { clockBase += d }

var clockJumps = [...]int64{int64(1e9), int64(61e9), int64(3601e9), int64(86401e9), int64(40 * 86400e9)}

//go:norace
func faults(site uint32) {
	if cfg.ClockPerm > 0 && rng.Intn(1000) < cfg.ClockPerm {
		j := clockJumps[rng.Intn(len(clockJumps))]
		clockBase += j
		stats.ClockJumps++
		recordDecision(Decision{Step: step, Task: cur, Kind: DClock, V: j})
	}
	if cfg.GCPermil > 0 && rng.Intn(1000) < cfg.GCPermil {
		recordDecision(Decision{Step: step, Task: cur, Kind: DGC})
		stats.GCs++
		runtime.GC()
	}
}

//go:norace
func pctStep(site uint32) {
	me := cur
	changed := false
	for pctIdx < len(pctChange) && step >= pctChange[pctIdx] {
		pctIdx++
		pctLow--
		pctPrio[me] = pctLow
		changed = true
	}
	if !changed {
		return
	}
	faults(site)
	nxt := pctBest()
	if nxt >= 0 && nxt != me {
		switchTo(nxt, site)
	}
}

//go:norace
func pctBest() int32 {
	best := int32(-1)
	for i := 0; i < nTasks; i++ {
		if status[i] == stRunnable && (best < 0 || pctPrio[i] > pctPrio[best]) {
			best = int32(i)
		}
	}
	return best
}

//go:norace
func singleStep(site uint32) {
	me := cur
	if singleDone || int(me) != cfg.SingleA || tsteps[me] < cfg.SingleAt {
		return
	}
	singleDone = true
	// hand over to the lowest other runnable task; A resumes when the others are done
	for i := 0; i < nTasks; i++ {
		if int32(i) != me && status[i] == stRunnable {
			switchTo(int32(i), site)
			return
		}
	}
}

//go:norace
func replayStep(site uint32) {
	for replayIdx < len(cfg.Replay) && cfg.Replay[replayIdx].Step < step {
		replayIdx++ // stale (can happen only in minimisation candidates)
	}
	for replayIdx < len(cfg.Replay) && cfg.Replay[replayIdx].Step == step {
		d := cfg.Replay[replayIdx]
		replayIdx++
		switch d.Kind {
		case DGC:
			recordDecision(d)
			stats.GCs++
			runtime.GC()
		case DClock:
			recordDecision(d)
			stats.ClockJumps++
			clockBase += d.V
		case DSwitch:
			if d.Task >= 0 && int(d.Task) < nTasks && status[d.Task] == stRunnable && d.Task != cur {
				switchTo(d.Task, site)
			}
		}
	}
}

// replayForced is replayStep for a point where the current task cannot continue.
//
//go:norace
func replayForced(site uint32) bool {
	me := cur
	replayStep(site)
	return cur != me
}

//go:norace
func recordDecision(d Decision) {
	if len(decisions) >= maxDecisions {
		stats.DecOverflow = true
		return
	}
	decisions = append(decisions, d)
}

// switchTo hands the baton to nxt and waits until it comes back.
//
//go:norace
func switchTo(nxt int32, site uint32) {
	me := cur
	if nxt == me {
		return
	}
	noteSwitch(me, nxt, site)
	cur = nxt
	for cur != me {
		runtime.Gosched()
	}
	if aborting {
		panic(Abort{"run aborted"})
	}
}

//go:norace
func noteSwitch(from, to int32, site uint32) {
	recordDecision(Decision{Step: step, Task: to, Kind: DSwitch, At: site})
	stats.Switches++
	stats.Sig = mix64(stats.Sig ^ (uint64(from)<<40 | uint64(to)<<32 | uint64(site)))
	if from >= 0 && inOp[from] && site < SiteOpBegin {
		stats.Preempts++
		o := curObj[from]
		if o >= 0 {
			for i := 0; i < nTasks; i++ {
				if int32(i) != from && inOp[i] && curObj[i] == o && status[i] == stRunnable {
					stats.Contended++
					break
				}
			}
		}
		// (preempted-at site, site the resumed task was parked at) pair coverage
		h := mix64(uint64(site)<<32|uint64(lastSite[to])) & (1<<22 - 1)
		pairBits[h>>6] |= 1 << (h & 63)
	}
}

//go:norace
func mix64(z uint64) uint64 {
	z += 0x9e3779b97f4a7c15
	z = (z ^ (z >> 30)) * 0xbf58476d1ce4e5b9
	z = (z ^ (z >> 27)) * 0x94d049bb133111eb
	return z ^ (z >> 31)
}

// PairCount returns the number of distinct (hashed) site pairs seen since ResetPairs.
//
//go:norace
func PairCount() int {
	n := 0
	for _, w := range pairBits {
		for ; w != 0; w &= w - 1 {
			n++
		}
	}
	return n
}

// OpBegin marks the start of one caller operation by the current task. obj is the
// id of the shared object it works on (-1: private), limit its step bound (L2).
//
//go:norace
func OpBegin(obj int32, limit uint64) {
	if !active {
		return
	}
	me := cur
	Y(SiteOpBegin)
	inOp[me] = true
	opStep[me] = 0
	opLimit[me] = limit
	curObj[me] = obj
	abortRaised[me] = false
}

// OpEnd marks the end of the current task's operation.
//
//go:norace
func OpEnd() {
	if !active {
		return
	}
	me := cur
	inOp[me] = false
	curObj[me] = -1
	if stalledAny() {
		stats.StallOps++
	}
	if aborting {
		return
	}
	yBoundary()
}

// yBoundary is a yield between two operations; an abort there needs no unwinding.
//
//go:norace
func yBoundary() {
	defer swallowAbort()
	Y(SiteOpEnd)
}

//go:norace
func swallowAbort() {
	if r := recover(); r != nil {
		if _, ok := r.(Abort); !ok {
			panic(r)
		}
	}
}

//go:norace
func stalledAny() bool {
	for i := 0; i < nTasks; i++ {
		if status[i] == stRunnable && stalled[i] > step && inOp[i] {
			return true
		}
	}
	return false
}

// OpSteps returns the number of steps the current task spent in its current operation.
//
//go:norace
func OpSteps() uint64 { return opStep[cur] }

// Run executes one simulated run: tasks `initial` are started at once, others may
// be started later through Spawn. It returns when every started task has ended.
// fn(task) is the task body; it runs on its own goroutine.
func Run(c Config, r *Rand, n int, initial []int, fn func(task int)) (Stats, []Decision) {
	waitReal()
	setup(c, r, n, fn)
	for _, t := range initial {
		markRunnable(t)
	}
	first := pickFirst(initial)
	for _, t := range initial {
		setDone(t, make(chan struct{}))
		go taskMain(t) // a real `go` statement: the start edge a production program has
	}
	start(first)
	waitAll()
	for i := 0; i < n; i++ {
		if ch := getDone(i); ch != nil {
			<-ch // a real join: the edge a production program has when it collects results
		}
	}
	for i := n; i < numTasks(); i++ {
		if ch := getDone(i); ch != nil {
			<-ch // library goroutines: the harness only waits until they are gone (the caller of a library has no such edge, and this one comes after every result was collected)
		}
	}
	return finish()
}

//go:norace
func setup(c Config, r *Rand, n int, fn func(int)) {
	cfg = c
	rng = r
	nTasks = n
	nScen = n
	orphanDeadline = 0
	body = fn
	step = 0
	stats = Stats{}
	decisions = decisions[:0]
	replayIdx = 0
	allDone = false
	aborting = false
	singleDone = false
	quiet = 0
	for i := 0; i < MaxTasks; i++ {
		status[i] = stNotStarted
		inOp[i] = false
		opStep[i] = 0
		opLimit[i] = ^uint64(0)
		curObj[i] = -1
		tsteps[i] = 0
		stalled[i] = 0
		lockWait[i] = false
		waitEpoch[i] = 0
		done[i] = nil
		lastSite[i] = 0
		isChild[i] = false
		selLive[i] = false
	}
	if cfg.StepCap == 0 {
		cfg.StepCap = 5_000_000
	}
	if SiteHits == nil {
		SiteHits = make([]uint64, len(Sites))
	}
	switch cfg.Policy {
	case PolUniform, PolTargeted:
		countdown = drawGap()
	case PolRR:
		if cfg.Quantum < 1 {
			cfg.Quantum = 1
		}
		countdown = int64(cfg.Quantum)
	case PolPCT:
		// random distinct priorities
		for i := 0; i < n; i++ {
			pctPrio[i] = i + 1
		}
		for i := n - 1; i > 0; i-- {
			j := rng.Intn(i + 1)
			pctPrio[i], pctPrio[j] = pctPrio[j], pctPrio[i]
		}
		pctLow = 0
		pctIdx = 0
		pctChange = pctChange[:0]
		est := cfg.TotalEst
		if est < 2 {
			est = 2
		}
		for k := 0; k < cfg.PCTDepth-1; k++ {
			pctChange = append(pctChange, 1+rng.Uint64n(est))
		}
		// sort (tiny)
		for i := 1; i < len(pctChange); i++ {
			for j := i; j > 0 && pctChange[j] < pctChange[j-1]; j-- {
				pctChange[j], pctChange[j-1] = pctChange[j-1], pctChange[j]
			}
		}
	}
}

//go:norace
func markRunnable(t int) { status[t] = stRunnable }

//go:norace
func pickFirst(initial []int) int32 {
	switch cfg.Policy {
	case PolReplay:
		// a decision at step 0 names the first task
		if len(cfg.Replay) > 0 && cfg.Replay[0].Step == 0 && cfg.Replay[0].Kind == DSwitch {
			t := cfg.Replay[0].Task
			replayIdx = 1
			if t >= 0 && int(t) < nTasks && status[t] == stRunnable {
				return t
			}
		}
		return int32(initial[0])
	case PolPCT:
		return pctBest()
	case PolSingle:
		if cfg.SingleA < nTasks && status[cfg.SingleA] == stRunnable {
			return int32(cfg.SingleA)
		}
		return int32(initial[0])
	case PolRR:
		return int32(initial[0])
	}
	return int32(initial[rng.Intn(len(initial))])
}

//go:norace
func start(first int32) {
	cur = first
	recordDecision(Decision{Step: 0, Task: first, Kind: DSwitch})
	active = true
}

//go:norace
func waitAll() {
	for !allDone {
		runtime.Gosched()
	}
	active = false
}

//go:norace
func finish() (Stats, []Decision) {
	stats.Steps = step
	out := make([]Decision, len(decisions))
	copy(out, decisions)
	return stats, out
}

func taskMain(t int) {
	defer exitTask(t)
	enterTask(t)
	body(t)
}

//go:norace
func enterTask(t int) {
	for !active || cur != int32(t) {
		runtime.Gosched()
	}
}

// exitTask runs deferred on the task's goroutine: also after runtime.Goexit.
func exitTask(t int) {
	ch := getDone(t) // before the hand-off: the slot of a library goroutine may be reused as soon as it is marked finished
	handOff(t)
	close(ch)
}

//go:norace
func handOff(t int) {
	me := int32(t)
	status[t] = stFinished
	inOp[t] = false
	curObj[t] = -1
	lockWait[t] = false
	step++
	cand := &candHand // package-level scratch: consumed before the baton moves
	n := runnable(cand, false)
	if n == 0 {
		allDone = true
		return
	}
	if orphanDeadline == 0 && !isChild[t] {
		callers := false
		for i := 0; i < nScen; i++ {
			if status[i] == stRunnable {
				callers = true
			}
		}
		if !callers {
			// only goroutines started by the library are left: they get a grace period to finish
			orphanDeadline = step + orphanGrace
		}
	}
	var nxt int32
	switch {
	case cfg.Policy == PolReplay:
		nxt = -1
		for replayIdx < len(cfg.Replay) && cfg.Replay[replayIdx].Step < step {
			replayIdx++
		}
		for replayIdx < len(cfg.Replay) && cfg.Replay[replayIdx].Step == step {
			d := cfg.Replay[replayIdx]
			replayIdx++
			if d.Kind == DSwitch && d.Task >= 0 && int(d.Task) < nTasks && status[d.Task] == stRunnable {
				nxt = d.Task
			}
		}
		if nxt < 0 {
			nxt = cand[0]
		}
	case aborting, cfg.Policy == PolSolo:
		nxt = cand[0]
	case cfg.Policy == PolPCT:
		nxt = pctBest()
	case cfg.Policy == PolRR:
		nxt = cand[0]
		for k := 1; k <= nTasks; k++ {
			c := (t + k) % nTasks
			if status[c] == stRunnable {
				nxt = int32(c)
				break
			}
		}
	case cfg.Policy == PolSingle:
		nxt = cand[0]
		// A resumes last
		if int(nxt) == cfg.SingleA && n > 1 {
			nxt = cand[1]
		}
	default:
		// prefer a task that is not serving a stall; if all are, lift the earliest
		ok := &candOK
		m := 0
		for i := 0; i < n; i++ {
			if stalled[cand[i]] <= step {
				ok[m] = cand[i]
				m++
			}
		}
		if m > 0 {
			nxt = ok[rng.Intn(m)]
		} else {
			nxt = cand[0]
			for i := 1; i < n; i++ {
				if stalled[cand[i]] < stalled[nxt] {
					nxt = cand[i]
				}
			}
			stalled[nxt] = 0
			rng.Intn(1) // keep the draw count uniform
		}
	}
	noteSwitch(me, nxt, SiteExit)
	cur = nxt
}

// ---- degraded mode: no inserted yields, no baton --------------------------------
//
// Used only when the library contains constructs the simulator does not own (its
// own goroutines, channels, select). Tasks are plain goroutines scheduled by the
// Go runtime; the oracles are unchanged but nothing is replayable.

var (
	free        bool
	freeWG      sync.WaitGroup
	freeStarted [MaxTasks]atomic.Bool
)

// RunFree runs the tasks as ordinary concurrent goroutines.
func RunFree(n int, initial []int, fn func(task int)) {
	for i := range freeStarted {
		freeStarted[i].Store(false)
	}
	body = fn
	nTasks = n
	free = true
	for _, t := range initial {
		freeStarted[t].Store(true)
		freeWG.Add(1)
		go func(t int) { defer freeWG.Done(); fn(t) }(t)
	}
	freeWG.Wait()
	free = false
}

// Spawn starts task t from the current task (late spawn).
func Spawn(t int) {
	if free {
		if t < nTasks && freeStarted[t].CompareAndSwap(false, true) {
			freeWG.Add(1)
			go func() { defer freeWG.Done(); body(t) }()
		}
		return
	}
	if !spawnMark(t) {
		return
	}
	setDone(t, make(chan struct{}))
	go taskMain(t)
}

//go:norace
func setDone(t int, ch chan struct{}) { done[t] = ch }

//go:norace
func getDone(t int) chan struct{} { return done[t] }

//go:norace
func spawnMark(t int) bool {
	if !active || t >= nTasks || status[t] != stNotStarted {
		return false
	}
	status[t] = stRunnable
	if cfg.Policy == PolPCT {
		// a late task gets a fresh priority in the middle
		pctPrio[t] = rng.Intn(nTasks + 1)
	}
	return true
}

// Started reports whether task t was ever started in the last run.
//
//go:norace
func Started(t int) bool { return status[t] != stNotStarted }
