package zsimrt

// Rand is xoshiro256** seeded through splitmix64: an own implementation so that
// neither the toolchain version nor math/rand changes can alter a run. All
// methods are //go:norace because the scheduler draws from task goroutines.
type Rand struct {
	s     [4]uint64
	Draws uint64
}

//go:norace
func splitmix(x *uint64) uint64 {
	*x += 0x9e3779b97f4a7c15
	z := *x
	z = (z ^ (z >> 30)) * 0xbf58476d1ce4e5b9
	z = (z ^ (z >> 27)) * 0x94d049bb133111eb
	return z ^ (z >> 31)
}

// SeedFor derives the seed of run i from the base seed.
//
//go:norace
func SeedFor(base, i uint64) uint64 {
	x := base ^ (i * 0xd1342543de82ef95)
	splitmix(&x)
	return splitmix(&x)
}

//go:norace
func NewRand(seed uint64) *Rand {
	r := &Rand{}
	x := seed
	for i := range r.s {
		r.s[i] = splitmix(&x)
	}
	return r
}

//go:norace
func rotl(x uint64, k uint) uint64 { return (x << k) | (x >> (64 - k)) }

//go:norace
func (r *Rand) Uint64() uint64 {
	r.Draws++
	res := rotl(r.s[1]*5, 7) * 9
	t := r.s[1] << 17
	r.s[2] ^= r.s[0]
	r.s[3] ^= r.s[1]
	r.s[1] ^= r.s[2]
	r.s[0] ^= r.s[3]
	r.s[2] ^= t
	r.s[3] = rotl(r.s[3], 45)
	return res
}

// Uint64n returns a value in [0,n). n must be > 0. (Modulo bias is irrelevant here.)
//
//go:norace
func (r *Rand) Uint64n(n uint64) uint64 { return r.Uint64() % n }

//go:norace
func (r *Rand) Intn(n int) int {
	if n <= 1 {
		r.Uint64() // keep the draw count independent of n
		return 0
	}
	return int(r.Uint64() % uint64(n))
}

//go:norace
func (r *Rand) Bool() bool { return r.Uint64()&1 == 1 }

// Permil is true with probability p/1000.
//
//go:norace
func (r *Rand) Permil(p int) bool { return r.Intn(1000) < p }
