package zsimrt

import "runtime"

// Solo reference passes of a library that starts goroutines of its own.
//
// A solo pass runs one call alone. When the library has no go statement, Y merely
// counts steps (CountBegin/CountEnd in rt.go). When it has, "alone" still means
// several goroutines, and how the Go runtime interleaves them would leak into the
// step counts — which are inputs of the schedule drawn for the simulated run
// (where a single preemption lands, how many steps a PCT run is expected to take).
// So the solo pass is a simulated run too: the caller is task 0 (on whatever
// goroutine calls CountBegin), the library's goroutines are tasks as in any run
// (go.go), and the policy is fixed: the baton moves only when its holder blocks or
// finishes, always to the lowest-numbered task that can run. No PRNG is involved.
// CountEnd lets the library's goroutines run until they are gone.

var (
	soloOn      bool
	soloPaused  bool
	soloJoining bool
)

//go:norace
func soloIsOn() bool { return soloOn }

// SoloOn reports whether a simulated solo pass is in progress.
//
//go:norace
func SoloOn() bool { return soloOn }

func soloBegin(cap uint64) {
	waitReal()
	soloStart(cap)
}

//go:norace
func soloStart(cap uint64) {
	setup(Config{Policy: PolSolo, StepCap: cap}, nil, 1, nil)
	status[0] = stRunnable
	inOp[0] = true
	cur = 0
	soloAbortRaised = false
	for i := range abortRaised {
		abortRaised[i] = false
	}
	soloPaused = false
	soloJoining = false
	soloOn = true
	active = true
}

// soloPause: the harness's own work (building a subject that exists before the call,
// canonicalising a result) is not part of the call: yields are no-ops meanwhile, and
// goroutines the library starts meanwhile are plain goroutines that must be gone
// before the pause ends.
func soloPause(on bool) {
	if !on && liveReal.Load() != 0 {
		waitReal()
	}
	soloSetPaused(on)
}

//go:norace
func soloSetPaused(on bool) { soloPaused = on }

func soloEnd() uint64 {
	soloSetPaused(false)
	soloJoin()
	return soloStop()
}

// soloJoin: the call has returned (or panicked); the goroutines it started run until
// they are gone. If they can never go on, the process is poisoned (YieldLock).
func soloJoin() {
	defer func() {
		if r := recover(); r != nil {
			if _, ok := r.(Abort); !ok {
				panic(r)
			}
		}
		soloDrain()
	}()
	soloSetJoining()
	for soloChildren() {
		YieldLock()
	}
}

//go:norace
func soloSetJoining() { soloJoining = true }

//go:norace
func soloChildren() bool {
	for i := 1; i < nTasks; i++ {
		if status[i] == stRunnable {
			return true
		}
	}
	return false
}

// soloDrain hands the baton to every library goroutine that is still there after an
// abort, so that it unwinds (its next yield panics) and goes away.
//
//go:norace
func soloDrain() {
	for n := 0; n < 1000; n++ {
		c := int32(-1)
		for i := 1; i < nTasks; i++ {
			if status[i] == stRunnable {
				c = int32(i)
				break
			}
		}
		if c < 0 {
			return
		}
		aborting = true
		cur = c
		for cur != 0 {
			runtime.Gosched()
		}
	}
}

//go:norace
func soloStop() uint64 {
	status[0] = stFinished
	active = false
	soloOn = false
	soloJoining = false
	aborting = false
	return step
}
