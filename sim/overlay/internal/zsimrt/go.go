package zsimrt

import (
	"runtime"
	"sync/atomic"
)

// Goroutines the LIBRARY starts itself.
//
// The instrumenter rewrites every `go f(x)` of the library into
// `zsimrt.Go(func() { f(x) })` (function value and arguments evaluated first, as a go
// statement does). Inside a simulated run such a goroutine becomes one more TASK: a
// real goroutine (started by a real `go` statement, so the race detector has the
// parent→child edge a production program has) that only executes while it holds
// the baton. The seeded scheduler decides every interleaving of callers and
// library goroutines alike, and a recorded decision list replays it.
//
// Outside a simulated run (the solo reference passes, the harness's own calls under
// Quiet) Go is a plain `go`: there is nothing to interleave with; the harness
// waits until such goroutines are gone before it goes on (WaitReal).
//
// What the simulator cannot own poisons the process instead of guessing: a library
// goroutine that is still running long after every caller task has finished (a
// janitor loop), more library goroutines than there are slots, a send on an
// unbuffered channel (chan.go). The worker then stops and the check falls back to
// the degraded mode, exactly as it does for constructs found statically.

const orphanGrace = 300_000 // steps library goroutines may go on for after the last caller task has finished

var (
	liveReal  atomic.Int64 // library goroutines running as plain goroutines (outside simulated runs)
	poisonWhy atomic.Pointer[string]
)

// Poisoned returns why the simulator gave up owning this library's concurrency ("": it has not).
func Poisoned() string {
	if p := poisonWhy.Load(); p != nil {
		return *p
	}
	return ""
}

// OnPoison, when set, is called once, on whatever goroutine found the reason; it is
// expected not to return (the harness prints the reason and exits).
var OnPoison func(why string)

func poison(why string) {
	if poisonWhy.CompareAndSwap(nil, &why) && OnPoison != nil {
		OnPoison(why)
	}
}

//go:norace
func orphaned() {
	poison("a goroutine started by the library was still running " + itoa(orphanGrace) + " steps after every caller task had finished")
	aborting = true
	raise("library goroutine outlived the run")
}

func itoa(n int) string {
	if n == 0 {
		return "0"
	}
	var b [20]byte
	i := len(b)
	for n > 0 {
		i--
		b[i] = byte('0' + n%10)
		n /= 10
	}
	return string(b[i:])
}

//go:norace
func numTasks() int { return nTasks }

// simOn: the caller is the baton holder of a simulated run and may be descheduled.
//
//go:norace
func simOn() bool { return active && quiet == 0 && !soloPaused && !free }

//go:norace
func goAlloc() int {
	if !simOn() {
		return -1
	}
	if aborting {
		return -2
	}
	t := -1
	for i := nScen; i < nTasks; i++ {
		if isChild[i] && status[i] == stFinished {
			t = i // the slot of a library goroutine that is gone
			break
		}
	}
	if t < 0 {
		if nTasks >= MaxTasks {
			// this run is wound down and not judged; the process goes on (inputs that make the
			// library fan out this far are the exception, not a property of the library)
			stats.TooManyGo = true
			aborting = true
			return -2
		}
		t = nTasks
		nTasks++
	}
	status[t] = stRunnable
	isChild[t] = true
	// a library goroutine works on behalf of the operation that started it: it is
	// preempted, parked and stalled under the same rules
	inOp[t] = inOp[cur]
	curObj[t] = curObj[cur]
	opStep[t] = 0
	opLimit[t] = ^uint64(0) // L2 is about caller operations
	tsteps[t] = 0
	stalled[t] = 0
	lockWait[t] = false
	lastSite[t] = lastSite[cur]
	abortRaised[t] = false
	if cfg.Policy == PolPCT {
		pctPrio[t] = rng.Intn(nTasks + 1)
	}
	stats.LibGo++
	lockEpoch++ // a new runnable task: waiting tasks are not deadlocked
	return t
}

// Go starts f the way the library's go statement would.
func Go(f func()) {
	switch t := goAlloc(); {
	case t >= 0:
		setDone(t, make(chan struct{}))
		go childMain(t, f)
	case t == -2:
		// the run is being torn down: the goroutine is not started at all
		raise("run aborted")
	default:
		liveReal.Add(1)
		go func() {
			defer liveReal.Add(-1)
			defer swallowAbortOnly()
			f()
		}()
	}
}

// An unrecovered panic on a goroutine the library started would kill a production
// process; here it must not kill the worker. It is recorded, the run is wound down and
// the harness discards it (TakeLibPanic): with the same code a sequential run dies
// just the same, so there is nothing C14 could compare.
var libPanic atomic.Pointer[string]

// TakeLibPanic returns (and clears) the text of a panic that escaped from a library goroutine.
func TakeLibPanic() string {
	if p := libPanic.Swap(nil); p != nil {
		return *p
	}
	return ""
}

func swallowAbortOnly() {
	if r := recover(); r != nil {
		if _, ok := r.(Abort); ok {
			return
		}
		text := "panic"
		switch v := r.(type) {
		case error:
			text = v.Error()
		case string:
			text = v
		}
		libPanic.CompareAndSwap(nil, &text)
		windDown()
	}
}

//go:norace
func windDown() {
	if active {
		aborting = true
	}
}

func childMain(t int, f func()) {
	defer exitTask(t)
	defer swallowAbortOnly()
	enterTask(t)
	f()
}

// WaitReal waits until the library goroutines that run as plain goroutines (started
// outside a simulated run) are gone. It reports false — and poisons the process —
// when they are still there after 2·10⁷ scheduler yields (seconds).
func WaitReal() bool { return waitReal() }

func waitReal() bool {
	if liveReal.Load() == 0 {
		return true
	}
	for n := 0; liveReal.Load() != 0; n++ {
		runtime.Gosched()
		if n > 20_000_000 {
			poison("a goroutine started by the library outside a simulated run did not finish")
			return false
		}
	}
	return true
}
