package zsimrt

// Channel operations of the LIBRARY.
//
// The channels stay real channels (their types are untouched, and the race
// detector sees the happens-before edges a production program has). What changes
// is how an operation WAITS: inside a simulated run a task must never block its
// goroutine while it holds the baton, so every operation that could block is tried
// without blocking, and when it cannot proceed the baton goes to another task
// (YieldLock — the same cooperative wait the sync shim uses, with the same deadlock
// detection). The instrumenter rewrites
//
//	ch <- v               zsimrt.ChanSend(ch)(v)
//	<-ch                  zsimrt.ChanRecv(ch)
//	v, ok := <-ch         v, ok := zsimrt.ChanRecv2(ch)
//	for v := range ch     for v := range zsimrt.ChanSeq(ch)
//	close(ch)             zsimrt.ChanClose(ch)
//	select {…}            L: select {… case bodies start with zsimrt.ChanEvent();
//	                         default: zsimrt.ChanWait(…); goto L }   (only when it had no default)
//
// Trying without blocking can only work for BUFFERED channels (and for receives from
// closed ones): a send on an unbuffered channel succeeds only when a receiver is
// already parked inside the Go runtime, which a polling receiver never is. Such a
// send poisons the process: the simulator says that it cannot own this library's
// concurrency and the check falls back to the degraded mode.
//
// Outside a simulated run the helpers are the plain operations.

//go:norace
func chanDone(waited bool) {
	if active {
		lockEpoch++
		stats.ChanOps++
		if waited {
			stats.ChanWaits++
		}
	}
}

//go:norace
func chanPoison(what string) {
	poison(what)
	if active {
		aborting = true
		raise("unbuffered channel")
	}
	panic(Abort{"unbuffered channel"})
}

const unbufferedWhy = "the library sends on an unbuffered channel (a rendezvous cannot be simulated by polling)"

// ChanSend(ch)(v) is `ch <- v`.
func ChanSend[T any](c chan<- T) func(T) {
	return func(v T) {
		if !simOn() {
			c <- v
			return
		}
		if c != nil && cap(c) == 0 {
			chanPoison(unbufferedWhy)
		}
		waited := false
		for {
			select {
			case c <- v:
				chanDone(waited)
				return
			default:
			}
			waited = true
			YieldLock()
		}
	}
}

// ChanRecv(ch) is `<-ch`.
func ChanRecv[T any](c <-chan T) T {
	v, _ := ChanRecv2(c)
	return v
}

// ChanRecv2(ch) is the two-value receive.
func ChanRecv2[T any](c <-chan T) (T, bool) {
	if !simOn() {
		v, ok := <-c
		return v, ok
	}
	waited := false
	for {
		select {
		case v, ok := <-c:
			chanDone(waited)
			return v, ok
		default:
		}
		waited = true
		YieldLock()
	}
}

// ChanSeq(ch) is what `range ch` iterates over.
func ChanSeq[T any](c <-chan T) func(yield func(T) bool) {
	return func(yield func(T) bool) {
		for {
			v, ok := ChanRecv2(c)
			if !ok || !yield(v) {
				return
			}
		}
	}
}

// ChanClose(ch) is `close(ch)`: waiting tasks are worth retrying.
func ChanClose[T any](c chan<- T) {
	close(c)
	chanDone(false)
}

// ---- select ---------------------------------------------------------------------
//
// A real select with several ready cases picks one with the runtime's own random
// number generator. The simulator owns that choice too: inside a simulated run only
// ONE case of a select is enabled per attempt (the channel expressions of the
// others evaluate to nil, which is never ready), the first one is drawn from the
// run's PRNG (a recorded, replayable decision) and the others follow in rotation;
// when a whole round found nothing ready the task waits cooperatively. The
// instrumenter turns
//
//	select { case a <- x: A; case v := <-b: B }
//
// into
//
//	L: select {
//	case zsimrt.SelCh(0, 2, a) <- x: zsimrt.ChanEvent(); A
//	case v := <-zsimrt.SelCh(1, 2, b): zsimrt.ChanEvent(); B
//	default: zsimrt.ChanWait(2, …); goto L }
//
// and, when the select had a default clause of its own, starts that clause with
// `if zsimrt.SelMore(n) { goto L }` (another case is tried before the default is taken).

var (
	selLive [MaxTasks]bool
	selN    [MaxTasks]int
	selBase [MaxTasks]int
	selTry  [MaxTasks]int
)

// SelCh returns c when case i of the current select is the one enabled in this
// attempt, else a nil channel of the same type.
func SelCh[C any](i, n int, c C) C {
	if selOn(i, n) {
		return c
	}
	var z C
	return z
}

//go:norace
func selOn(i, n int) bool {
	if !simOn() {
		return true
	}
	me := cur
	if i == 0 && (!selLive[me] || selN[me] != n) {
		// channel expressions are evaluated in source order on entering the select: case 0 comes first
		selLive[me] = true
		selN[me] = n
		selTry[me] = 0
		selBase[me] = selBegin(n)
	}
	return i == (selBase[me]+selTry[me])%n
}

// selBegin draws (or replays) which case of a select is tried first.
//
//go:norace
func selBegin(n int) int {
	step++ // a select is an event of its own
	if cfg.Policy == PolReplay {
		for replayIdx < len(cfg.Replay) && cfg.Replay[replayIdx].Step < step {
			replayIdx++
		}
		b := 0
		for replayIdx < len(cfg.Replay) && cfg.Replay[replayIdx].Step == step && cfg.Replay[replayIdx].Kind == DSelect {
			d := cfg.Replay[replayIdx]
			replayIdx++
			if d.V >= 0 {
				b = int(d.V) % n
			}
			recordDecision(d)
		}
		return b
	}
	if rng == nil {
		return 0 // a solo pass: source order
	}
	b := rng.Intn(n)
	if b != 0 {
		recordDecision(Decision{Step: step, Task: cur, Kind: DSelect, V: int64(b)})
	}
	return b
}

//go:norace
func selAdvance(n int) bool {
	me := cur
	selTry[me]++
	if selTry[me] < n {
		return true
	}
	selTry[me] = 0
	return false
}

//go:norace
func selEnd() {
	if active {
		selLive[cur] = false
	}
}

// ChanEvent is the first statement of every communication case of a select.
func ChanEvent() {
	if simOn() {
		selEnd()
	}
	chanDone(false)
}

// SelMore starts the default clause of a select that had one: true while another
// case is still to be tried in this round.
func SelMore(n int, unbufferedSend ...bool) bool {
	for _, u := range unbufferedSend {
		if u {
			// in production this send succeeds when a receiver is parked in the runtime; a polling
			// receiver never is, so the simulated select would always take its default
			chanPoison(unbufferedWhy)
		}
	}
	if !simOn() {
		return false
	}
	if n > 1 && selAdvance(n) {
		return true
	}
	selEnd()
	return false
}

// ChanWait is the body of the `default` clause the instrumenter adds to a select
// that had none: when every case was tried and none can proceed, the baton goes to
// another task and the select is tried again. unbufferedSend[i] says that the i-th
// send case's channel is non-nil and unbuffered.
func ChanWait(n int, unbufferedSend ...bool) {
	for _, u := range unbufferedSend {
		if u {
			chanPoison(unbufferedWhy)
		}
	}
	if simOn() {
		if n > 1 && selAdvance(n) {
			return
		}
		noteChanWait()
	}
	YieldLock()
}

//go:norace
func noteChanWait() { stats.ChanWaits++ }
