// Package zatomic stands in for package sync/atomic inside the instrumented
// scratch copy (the instrumenter rewrites the import). Every operation is the
// real atomic operation preceded by a yield, so that the simulator can place a
// preemption BETWEEN two atomic operations of one statement — e.g. between the
// Load and the Store of `n.Store(n.Load() + 1)`, or between a CompareAndSwap and
// the code that assumes it still holds. The race detector sees the real atomics.
package zatomic

import (
	"sync/atomic"
	"unsafe"

	"github.com/grindlemire/go-lucene/internal/zsimrt"
)

func y() { zsimrt.Y(zsimrt.SiteAtomic) }

// Int32 wraps atomic.Int32.
type Int32 struct{ v atomic.Int32 }

func (x *Int32) Load() int32                        { y(); return x.v.Load() }
func (x *Int32) Store(val int32)                    { y(); x.v.Store(val) }
func (x *Int32) Swap(new int32) int32               { y(); return x.v.Swap(new) }
func (x *Int32) CompareAndSwap(old, new int32) bool { y(); return x.v.CompareAndSwap(old, new) }
func (x *Int32) Add(delta int32) int32              { y(); return x.v.Add(delta) }
func (x *Int32) And(mask int32) int32               { y(); return x.v.And(mask) }
func (x *Int32) Or(mask int32) int32                { y(); return x.v.Or(mask) }

func LoadInt32(addr *int32) int32            { y(); return atomic.LoadInt32(addr) }
func StoreInt32(addr *int32, val int32)      { y(); atomic.StoreInt32(addr, val) }
func SwapInt32(addr *int32, new int32) int32 { y(); return atomic.SwapInt32(addr, new) }
func CompareAndSwapInt32(addr *int32, old, new int32) bool {
	y()
	return atomic.CompareAndSwapInt32(addr, old, new)
}
func AddInt32(addr *int32, delta int32) int32 { y(); return atomic.AddInt32(addr, delta) }
func AndInt32(addr *int32, mask int32) int32  { y(); return atomic.AndInt32(addr, mask) }
func OrInt32(addr *int32, mask int32) int32   { y(); return atomic.OrInt32(addr, mask) }

// Int64 wraps atomic.Int64.
type Int64 struct{ v atomic.Int64 }

func (x *Int64) Load() int64                        { y(); return x.v.Load() }
func (x *Int64) Store(val int64)                    { y(); x.v.Store(val) }
func (x *Int64) Swap(new int64) int64               { y(); return x.v.Swap(new) }
func (x *Int64) CompareAndSwap(old, new int64) bool { y(); return x.v.CompareAndSwap(old, new) }
func (x *Int64) Add(delta int64) int64              { y(); return x.v.Add(delta) }
func (x *Int64) And(mask int64) int64               { y(); return x.v.And(mask) }
func (x *Int64) Or(mask int64) int64                { y(); return x.v.Or(mask) }

func LoadInt64(addr *int64) int64            { y(); return atomic.LoadInt64(addr) }
func StoreInt64(addr *int64, val int64)      { y(); atomic.StoreInt64(addr, val) }
func SwapInt64(addr *int64, new int64) int64 { y(); return atomic.SwapInt64(addr, new) }
func CompareAndSwapInt64(addr *int64, old, new int64) bool {
	y()
	return atomic.CompareAndSwapInt64(addr, old, new)
}
func AddInt64(addr *int64, delta int64) int64 { y(); return atomic.AddInt64(addr, delta) }
func AndInt64(addr *int64, mask int64) int64  { y(); return atomic.AndInt64(addr, mask) }
func OrInt64(addr *int64, mask int64) int64   { y(); return atomic.OrInt64(addr, mask) }

// Uint32 wraps atomic.Uint32.
type Uint32 struct{ v atomic.Uint32 }

func (x *Uint32) Load() uint32                        { y(); return x.v.Load() }
func (x *Uint32) Store(val uint32)                    { y(); x.v.Store(val) }
func (x *Uint32) Swap(new uint32) uint32              { y(); return x.v.Swap(new) }
func (x *Uint32) CompareAndSwap(old, new uint32) bool { y(); return x.v.CompareAndSwap(old, new) }
func (x *Uint32) Add(delta uint32) uint32             { y(); return x.v.Add(delta) }
func (x *Uint32) And(mask uint32) uint32              { y(); return x.v.And(mask) }
func (x *Uint32) Or(mask uint32) uint32               { y(); return x.v.Or(mask) }

func LoadUint32(addr *uint32) uint32             { y(); return atomic.LoadUint32(addr) }
func StoreUint32(addr *uint32, val uint32)       { y(); atomic.StoreUint32(addr, val) }
func SwapUint32(addr *uint32, new uint32) uint32 { y(); return atomic.SwapUint32(addr, new) }
func CompareAndSwapUint32(addr *uint32, old, new uint32) bool {
	y()
	return atomic.CompareAndSwapUint32(addr, old, new)
}
func AddUint32(addr *uint32, delta uint32) uint32 { y(); return atomic.AddUint32(addr, delta) }
func AndUint32(addr *uint32, mask uint32) uint32  { y(); return atomic.AndUint32(addr, mask) }
func OrUint32(addr *uint32, mask uint32) uint32   { y(); return atomic.OrUint32(addr, mask) }

// Uint64 wraps atomic.Uint64.
type Uint64 struct{ v atomic.Uint64 }

func (x *Uint64) Load() uint64                        { y(); return x.v.Load() }
func (x *Uint64) Store(val uint64)                    { y(); x.v.Store(val) }
func (x *Uint64) Swap(new uint64) uint64              { y(); return x.v.Swap(new) }
func (x *Uint64) CompareAndSwap(old, new uint64) bool { y(); return x.v.CompareAndSwap(old, new) }
func (x *Uint64) Add(delta uint64) uint64             { y(); return x.v.Add(delta) }
func (x *Uint64) And(mask uint64) uint64              { y(); return x.v.And(mask) }
func (x *Uint64) Or(mask uint64) uint64               { y(); return x.v.Or(mask) }

func LoadUint64(addr *uint64) uint64             { y(); return atomic.LoadUint64(addr) }
func StoreUint64(addr *uint64, val uint64)       { y(); atomic.StoreUint64(addr, val) }
func SwapUint64(addr *uint64, new uint64) uint64 { y(); return atomic.SwapUint64(addr, new) }
func CompareAndSwapUint64(addr *uint64, old, new uint64) bool {
	y()
	return atomic.CompareAndSwapUint64(addr, old, new)
}
func AddUint64(addr *uint64, delta uint64) uint64 { y(); return atomic.AddUint64(addr, delta) }
func AndUint64(addr *uint64, mask uint64) uint64  { y(); return atomic.AndUint64(addr, mask) }
func OrUint64(addr *uint64, mask uint64) uint64   { y(); return atomic.OrUint64(addr, mask) }

// Uintptr wraps atomic.Uintptr.
type Uintptr struct{ v atomic.Uintptr }

func (x *Uintptr) Load() uintptr                        { y(); return x.v.Load() }
func (x *Uintptr) Store(val uintptr)                    { y(); x.v.Store(val) }
func (x *Uintptr) Swap(new uintptr) uintptr             { y(); return x.v.Swap(new) }
func (x *Uintptr) CompareAndSwap(old, new uintptr) bool { y(); return x.v.CompareAndSwap(old, new) }
func (x *Uintptr) Add(delta uintptr) uintptr            { y(); return x.v.Add(delta) }
func (x *Uintptr) And(mask uintptr) uintptr             { y(); return x.v.And(mask) }
func (x *Uintptr) Or(mask uintptr) uintptr              { y(); return x.v.Or(mask) }

func LoadUintptr(addr *uintptr) uintptr              { y(); return atomic.LoadUintptr(addr) }
func StoreUintptr(addr *uintptr, val uintptr)        { y(); atomic.StoreUintptr(addr, val) }
func SwapUintptr(addr *uintptr, new uintptr) uintptr { y(); return atomic.SwapUintptr(addr, new) }
func CompareAndSwapUintptr(addr *uintptr, old, new uintptr) bool {
	y()
	return atomic.CompareAndSwapUintptr(addr, old, new)
}
func AddUintptr(addr *uintptr, delta uintptr) uintptr { y(); return atomic.AddUintptr(addr, delta) }
func AndUintptr(addr *uintptr, mask uintptr) uintptr  { y(); return atomic.AndUintptr(addr, mask) }
func OrUintptr(addr *uintptr, mask uintptr) uintptr   { y(); return atomic.OrUintptr(addr, mask) }

// Bool wraps atomic.Bool.
type Bool struct{ v atomic.Bool }

func (x *Bool) Load() bool                        { y(); return x.v.Load() }
func (x *Bool) Store(val bool)                    { y(); x.v.Store(val) }
func (x *Bool) Swap(new bool) bool                { y(); return x.v.Swap(new) }
func (x *Bool) CompareAndSwap(old, new bool) bool { y(); return x.v.CompareAndSwap(old, new) }

// Pointer wraps atomic.Pointer[T].
type Pointer[T any] struct{ v atomic.Pointer[T] }

func (x *Pointer[T]) Load() *T                        { y(); return x.v.Load() }
func (x *Pointer[T]) Store(val *T)                    { y(); x.v.Store(val) }
func (x *Pointer[T]) Swap(new *T) *T                  { y(); return x.v.Swap(new) }
func (x *Pointer[T]) CompareAndSwap(old, new *T) bool { y(); return x.v.CompareAndSwap(old, new) }

// Value wraps atomic.Value.
type Value struct{ v atomic.Value }

func (x *Value) Load() any                        { y(); return x.v.Load() }
func (x *Value) Store(val any)                    { y(); x.v.Store(val) }
func (x *Value) Swap(new any) any                 { y(); return x.v.Swap(new) }
func (x *Value) CompareAndSwap(old, new any) bool { y(); return x.v.CompareAndSwap(old, new) }

func LoadPointer(addr *unsafe.Pointer) unsafe.Pointer       { y(); return atomic.LoadPointer(addr) }
func StorePointer(addr *unsafe.Pointer, val unsafe.Pointer) { y(); atomic.StorePointer(addr, val) }
func SwapPointer(addr *unsafe.Pointer, new unsafe.Pointer) unsafe.Pointer {
	y()
	return atomic.SwapPointer(addr, new)
}
func CompareAndSwapPointer(addr *unsafe.Pointer, old, new unsafe.Pointer) bool {
	y()
	return atomic.CompareAndSwapPointer(addr, old, new)
}
