// Package ztime stands in for package time inside the instrumented scratch copy
// (the instrumenter rewrites the import). Everything is the real package except
// the CLOCK: Now, Since and Until read the simulator's clock, which starts at a
// fixed epoch, advances one microsecond per simulated step, and jumps forward
// when the scheduler injects a clock-jump fault. A library that lets a clock
// reading reach a result is then caught deterministically (O1/O5), and expiry
// logic (TTL caches, leases) sees "no time passes" as well as "an hour passed in
// the middle of this operation" without any real waiting.
//
// Blocking facilities (Sleep, After, Tick, timers, tickers) are forwarded to the
// real package: a library using them has goroutines or channels of its own and
// runs in the degraded mode anyway.
package ztime

import (
	"time"

	"github.com/grindlemire/go-lucene/internal/zsimrt"
)

type (
	Time       = time.Time
	Duration   = time.Duration
	Month      = time.Month
	Weekday    = time.Weekday
	Location   = time.Location
	Timer      = time.Timer
	Ticker     = time.Ticker
	ParseError = time.ParseError
)

const (
	Nanosecond  = time.Nanosecond
	Microsecond = time.Microsecond
	Millisecond = time.Millisecond
	Second      = time.Second
	Minute      = time.Minute
	Hour        = time.Hour

	Layout      = time.Layout
	ANSIC       = time.ANSIC
	UnixDate    = time.UnixDate
	RubyDate    = time.RubyDate
	RFC822      = time.RFC822
	RFC822Z     = time.RFC822Z
	RFC850      = time.RFC850
	RFC1123     = time.RFC1123
	RFC1123Z    = time.RFC1123Z
	RFC3339     = time.RFC3339
	RFC3339Nano = time.RFC3339Nano
	Kitchen     = time.Kitchen
	Stamp       = time.Stamp
	StampMilli  = time.StampMilli
	StampMicro  = time.StampMicro
	StampNano   = time.StampNano
	DateTime    = time.DateTime
	DateOnly    = time.DateOnly
	TimeOnly    = time.TimeOnly

	January   = time.January
	February  = time.February
	March     = time.March
	April     = time.April
	May       = time.May
	June      = time.June
	July      = time.July
	August    = time.August
	September = time.September
	October   = time.October
	November  = time.November
	December  = time.December

	Sunday    = time.Sunday
	Monday    = time.Monday
	Tuesday   = time.Tuesday
	Wednesday = time.Wednesday
	Thursday  = time.Thursday
	Friday    = time.Friday
	Saturday  = time.Saturday
)

var (
	UTC   = time.UTC
	Local = time.Local
)

// epoch of the simulated clock: 2026-01-01T00:00:00Z
const epochNanos = 1767225600 * int64(time.Second)

// Now reads the simulated clock.
func Now() Time { return time.Unix(0, epochNanos+zsimrt.ClockNanos()).UTC() }

func Since(t Time) Duration { return Now().Sub(t) }
func Until(t Time) Duration { return t.Sub(Now()) }

func Date(year int, month Month, day, hour, min, sec, nsec int, loc *Location) Time {
	return time.Date(year, month, day, hour, min, sec, nsec, loc)
}
func Unix(sec, nsec int64) Time                { return time.Unix(sec, nsec) }
func UnixMilli(msec int64) Time                { return time.UnixMilli(msec) }
func UnixMicro(usec int64) Time                { return time.UnixMicro(usec) }
func Parse(layout, value string) (Time, error) { return time.Parse(layout, value) }
func ParseInLocation(l, v string, loc *Location) (Time, error) {
	return time.ParseInLocation(l, v, loc)
}
func ParseDuration(s string) (Duration, error)    { return time.ParseDuration(s) }
func LoadLocation(name string) (*Location, error) { return time.LoadLocation(name) }
func FixedZone(name string, offset int) *Location { return time.FixedZone(name, offset) }
func LoadLocationFromTZData(n string, d []byte) (*Location, error) {
	return time.LoadLocationFromTZData(n, d)
}

func Sleep(d Duration)                      { time.Sleep(d) }
func After(d Duration) <-chan Time          { return time.After(d) }
func AfterFunc(d Duration, f func()) *Timer { return time.AfterFunc(d, f) }
func Tick(d Duration) <-chan Time           { return time.Tick(d) }
func NewTimer(d Duration) *Timer            { return time.NewTimer(d) }
func NewTicker(d Duration) *Ticker          { return time.NewTicker(d) }
