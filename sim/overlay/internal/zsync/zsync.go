// Package zsync stands in for package sync inside the instrumented scratch copy
// (the instrumenter rewrites `import "sync"` to it). Blocking operations wait
// COOPERATIVELY — they hand the simulator's baton to another task instead of
// blocking the goroutine, which would wedge a simulation in which the lock
// holder is parked at a yield — and then perform the REAL operation on an
// embedded real primitive, which by construction no longer blocks. Keeping the
// real primitive matters: it is what gives the race detector the happens-before
// edges a production program has. Outside a simulated run everything is the
// plain sync behaviour.
package zsync

import (
	"sync"
	"sync/atomic"

	"github.com/grindlemire/go-lucene/internal/zsimrt"
)

type (
	Locker = sync.Locker
	Map    = sync.Map
	Pool   = sync.Pool
)

// Mutex is a cooperative sync.Mutex.
type Mutex struct{ mu sync.Mutex }

func (m *Mutex) Lock() {
	if !zsimrt.Active() {
		m.mu.Lock()
		return
	}
	zsimrt.SyncPoint()
	for !m.mu.TryLock() {
		zsimrt.YieldLock()
	}
	zsimrt.LockEvent()
}

func (m *Mutex) Unlock() {
	m.mu.Unlock()
	zsimrt.LockEvent()
	zsimrt.SyncPoint()
}

func (m *Mutex) TryLock() bool {
	ok := m.mu.TryLock()
	if ok {
		zsimrt.LockEvent()
	}
	return ok
}

// RWMutex is a cooperative sync.RWMutex.
type RWMutex struct{ mu sync.RWMutex }

func (m *RWMutex) Lock() {
	if !zsimrt.Active() {
		m.mu.Lock()
		return
	}
	zsimrt.SyncPoint()
	for !m.mu.TryLock() {
		zsimrt.YieldLock()
	}
	zsimrt.LockEvent()
}

func (m *RWMutex) Unlock() { m.mu.Unlock(); zsimrt.LockEvent(); zsimrt.SyncPoint() }

func (m *RWMutex) RLock() {
	if !zsimrt.Active() {
		m.mu.RLock()
		return
	}
	zsimrt.SyncPoint()
	for !m.mu.TryRLock() {
		zsimrt.YieldLock()
	}
	zsimrt.LockEvent()
}

func (m *RWMutex) RUnlock() { m.mu.RUnlock(); zsimrt.LockEvent(); zsimrt.SyncPoint() }

func (m *RWMutex) TryLock() bool {
	ok := m.mu.TryLock()
	if ok {
		zsimrt.LockEvent()
	}
	return ok
}

func (m *RWMutex) TryRLock() bool {
	ok := m.mu.TryRLock()
	if ok {
		zsimrt.LockEvent()
	}
	return ok
}

type rlocker RWMutex

func (r *rlocker) Lock()   { (*RWMutex)(r).RLock() }
func (r *rlocker) Unlock() { (*RWMutex)(r).RUnlock() }

func (m *RWMutex) RLocker() Locker { return (*rlocker)(m) }

// Once is sync.Once over the cooperative Mutex.
type Once struct {
	done atomic.Uint32
	m    Mutex
}

func (o *Once) Do(f func()) {
	if o.done.Load() == 0 {
		o.doSlow(f)
	}
}

func (o *Once) doSlow(f func()) {
	o.m.Lock()
	defer o.m.Unlock()
	if o.done.Load() == 0 {
		defer o.done.Store(1)
		f()
	}
}

func OnceFunc(f func()) func() {
	var once Once
	var valid bool
	var p any
	g := func() {
		defer func() {
			p = recover()
			if !valid {
				panic(p)
			}
		}()
		f()
		f = nil
		valid = true
	}
	return func() {
		once.Do(g)
		if !valid {
			panic(p)
		}
	}
}

func OnceValue[T any](f func() T) func() T {
	var once Once
	var valid bool
	var p any
	var result T
	g := func() {
		defer func() {
			p = recover()
			if !valid {
				panic(p)
			}
		}()
		result = f()
		f = nil
		valid = true
	}
	return func() T {
		once.Do(g)
		if !valid {
			panic(p)
		}
		return result
	}
}

func OnceValues[T1, T2 any](f func() (T1, T2)) func() (T1, T2) {
	var once Once
	var valid bool
	var p any
	var r1 T1
	var r2 T2
	g := func() {
		defer func() {
			p = recover()
			if !valid {
				panic(p)
			}
		}()
		r1, r2 = f()
		f = nil
		valid = true
	}
	return func() (T1, T2) {
		once.Do(g)
		if !valid {
			panic(p)
		}
		return r1, r2
	}
}

// WaitGroup waits cooperatively, then performs the real Wait (for its edges).
type WaitGroup struct {
	wg sync.WaitGroup
	n  atomic.Int64
}

func (w *WaitGroup) Add(delta int) {
	w.n.Add(int64(delta))
	w.wg.Add(delta)
	zsimrt.LockEvent()
}

func (w *WaitGroup) Done() { w.Add(-1) }

func (w *WaitGroup) Wait() {
	if zsimrt.Active() {
		for w.n.Load() > 0 {
			zsimrt.YieldLock()
		}
	}
	w.wg.Wait()
}

// Cond is a cooperative condition variable.
type Cond struct {
	L   Locker
	gen atomic.Uint64
}

func NewCond(l Locker) *Cond { return &Cond{L: l} }

func (c *Cond) Wait() {
	g := c.gen.Load()
	c.L.Unlock()
	for c.gen.Load() == g {
		zsimrt.YieldLock()
	}
	c.L.Lock()
}

func (c *Cond) Signal()    { c.gen.Add(1); zsimrt.LockEvent() }
func (c *Cond) Broadcast() { c.gen.Add(1); zsimrt.LockEvent() }
