// This go.mod only fences the overlay off from the verif/sim module so that
// `go build ./...` in /verif/sim ignores it. It is NOT copied into the scratch
// copy of /repo: there the overlay files become part of the repository's module.
module github.com/grindlemire/go-lucene

go 1.22
