package main

import (
	"fmt"
	"os"
	"strings"
	"sync/atomic"

	"github.com/grindlemire/go-lucene/internal/zsimrt"
	"github.com/grindlemire/go-lucene/pkg/lucene/expr"
)

const (
	soloStepCap      = 20_000_000
	opStepLimit      = 10_000_000  // no corpus or grammar input needs more than ~150 000 steps alone on the pinned tree
	giantOpStepLimit = 100_000_000 // giant runs: a cap only, never judged (a slower but correct library is not a livelock)
	resNotRun        = ""
	resSkipUnpub     = "skip:unpublished"
)

// Violation is one oracle failure.
type Violation struct {
	Oracle string `json:"oracle"` // O1 | O2 | O2-solo | O5 | L1 | L2
	Task   int    `json:"task"`
	Op     int    `json:"op"` // index within the task (-1: not tied to one operation)
	Kind   string `json:"kind,omitempty"`
	What   string `json:"what"`
	Want   string `json:"want,omitempty"`
	Got    string `json:"got,omitempty"`
	Step   uint64 `json:"step,omitempty"`
	Site   string `json:"site,omitempty"`
}

// Sig is the part of a violation that must be reproduced by a replay or a
// minimisation candidate: the oracle and the kind of operation.
func (v *Violation) Sig() string { return v.Oracle + "/" + v.Kind }

type fingerprint struct {
	structure, identity uint64
	canon               string // structural canonical form at creation (for reports)
	full                string
	haveFull            bool
}

type soloRecheck struct {
	t, i int
	res  string
	f    func() string
}

type world struct {
	sc      *Scenario
	shared  []*expr.Expression
	pub     []atomic.Pointer[expr.Expression]
	fp      []fingerprint
	fpSet   []bool // fingerprint valid (late slots: set by the publisher before publication)
	results [][]string
	steps   [][]uint64
	viol    [zsimrt.MaxTasks + 1]*Violation // first violation seen by each task (slot MaxTasks: main)
	limits  [][]uint64
	recheck [][]func() string // O6: recompute a result's canonical form from the raw returned values
	soloRe  []soloRecheck
	fired   [zsimrt.MaxTasks + 1]map[string]int
	cbCalls [zsimrt.MaxTasks + 1]int
}

func takeFP(e *expr.Expression, full bool) fingerprint {
	var f fingerprint
	f.structure, f.identity = structHash(e)
	f.canon = canonStruct(e)
	if full {
		f.full = canonFull(e)
		f.haveFull = true
	}
	return f
}

func (w *world) note(slot int, v *Violation) {
	if w.viol[slot] == nil {
		w.viol[slot] = v
	}
}

// subject returns the expression an operation works on, the shared slot it came
// from (-1: private) and whether the operation has to be skipped.
func (w *world) subject(op *Op) (e *expr.Expression, slot int, skip bool) {
	switch op.Kind {
	case KParse, KToPG, KToParam, KUnmarshal, KNewDriver:
		return nil, -1, false
	}
	if op.Shared >= 0 {
		if w.sc.Shared[op.Shared].Late {
			e = w.pub[op.Shared].Load() // acquire: pairs with the publisher's Store
			if e == nil {
				return nil, op.Shared, true
			}
			return e, op.Shared, false
		}
		return w.shared[op.Shared], op.Shared, false
	}
	if op.Priv != nil {
		return buildExpr(op.Priv), -1, false
	}
	return nil, -1, false
}

// checkShared compares one shared expression with its fingerprint (structure and
// node identities only: no library calls).
func (w *world) checkShared(i int, slot int, task, opIdx int, kind, when string) {
	var e *expr.Expression
	if w.sc.Shared[i].Late {
		e = w.pub[i].Load() // acquire: the publisher set the fingerprint before its Store
		if e == nil {
			return
		}
	} else {
		e = w.shared[i]
	}
	if !w.fpSet[i] {
		return
	}
	s, id := structHash(e)
	if s != w.fp[i].structure || id != w.fp[i].identity {
		what := "structure"
		if s == w.fp[i].structure {
			what = "node identity"
		}
		w.note(slot, &Violation{Oracle: "O2", Task: task, Op: opIdx, Kind: kind,
			What: fmt.Sprintf("shared expression #%d changed (%s) %s", i, what, when),
			Want: w.fp[i].canon, Got: canonStruct(e)})
	}
}

// simOp runs operation i of task t inside the simulated run.
func (w *world) simOp(t, i int) {
	op := &w.sc.Tasks[t][i]
	completed := false
	var res string
	var began bool
	defer func() {
		// runs on normal return, on panic and on runtime.Goexit
		if r := recover(); r != nil {
			if a, ok := r.(zsimrt.Abort); ok {
				res = "abort:" + a.Why
			} else {
				res = "panic:" + panicText(r)
			}
		} else if !completed {
			res = "exit"
		}
		if began && zsimrt.AbortRaised() && !strings.HasPrefix(res, "abort:") {
			res = "abort:raised inside the operation and swallowed on the way up (fmt recovers panics of String methods)"
		}
		if began {
			w.steps[t][i] = zsimrt.OpSteps()
		}
		w.results[t][i] = res
		st := &fstate[t]
		if st.fired && st.plan != nil {
			if w.fired[t] == nil {
				w.fired[t] = map[string]int{}
			}
			w.fired[t][st.plan.Kind]++
		}
		w.cbCalls[t] += st.calls
		*st = faultState{}
		if began {
			zsimrt.OpEnd()
		}
	}()

	switch op.Kind {
	case KSpawn:
		zsimrt.Spawn(op.Target)
		res, completed = "spawned", true
		return
	case KPublish:
		zsimrt.OpBegin(-1, w.limits[t][i])
		began = true
		e := buildExpr(&w.sc.Shared[op.Shared])
		zsimrt.Quiet(true)
		if e != nil {
			w.fp[op.Shared] = takeFP(e, true)
			w.fpSet[op.Shared] = true
		}
		res = "published:" + canonFull(e)
		zsimrt.Quiet(false)
		if e != nil {
			w.pub[op.Shared].Store(e) // release
		}
		completed = true
		return
	}

	fstate[t] = faultState{plan: op.Fault}
	// resolve a late subject before OpBegin so that a skipped operation costs nothing
	if op.Shared >= 0 && w.sc.Shared[op.Shared].Late && w.pub[op.Shared].Load() == nil {
		res, completed = resSkipUnpub, true
		return
	}
	obj := int32(-1)
	if op.Shared >= 0 {
		obj = int32(op.Shared)
	}
	zsimrt.OpBegin(obj, w.limits[t][i])
	began = true
	e, slot, skip := w.subject(op)
	if skip {
		res, completed = resSkipUnpub, true
		return
	}
	var re func() string
	res, re = doCall(op, e, func(f func() string) string {
		zsimrt.Quiet(true)
		defer zsimrt.Quiet(false)
		return f()
	})
	w.recheck[t][i] = re
	if oe := optsFor(op); oe != nil {
		if why := oe.check(); why != "" {
			w.note(t, &Violation{Oracle: "O2", Task: t, Op: i, Kind: op.Kind,
				What: "an argument changed during the simulated run: " + why})
		}
	}
	if slot >= 0 {
		w.checkShared(slot, t, t, i, op.Kind, "after the operation returned")
	}
	completed = true
}

// guardedBuild is buildExpr that also survives the solo step cap.
func guardedBuild(sp *ExprSpec) (e *expr.Expression) {
	defer func() {
		if r := recover(); r != nil {
			e = nil
		}
	}()
	return buildExpr(sp)
}

// soloOp runs flattened operation (t,i) alone, on freshly built private copies of
// its arguments, with the same fault plan. It returns the canonical result and
// the number of steps.
func (w *world) soloOp(t, i int) (res string, steps uint64) {
	op := &w.sc.Tasks[t][i]
	switch op.Kind {
	case KSpawn:
		return "spawned", 0
	case KPublish:
		zsimrt.CountBegin(soloStepCap)
		e := guardedBuild(&w.sc.Shared[op.Shared])
		steps = zsimrt.CountEnd()
		return "published:" + canonFull(e), steps
	}
	run := func() {
		completed := false
		defer func() {
			steps = zsimrt.CountEnd()
			if r := recover(); r != nil {
				if a, ok := r.(zsimrt.Abort); ok {
					res = "abort:" + a.Why
				} else {
					res = "panic:" + panicText(r)
				}
			} else if !completed {
				res = "exit"
			}
			if zsimrt.AbortRaised() && !strings.HasPrefix(res, "abort:") {
				res = "abort:solo step cap (swallowed on the way up)"
			}
			fstate[soloSlot] = faultState{}
		}()
		var e *expr.Expression
		var before fingerprint
		shared := false
		fstate[soloSlot] = faultState{plan: op.Fault, solo: true}
		zsimrt.CountBegin(soloStepCap)
		switch op.Kind {
		case KParse, KToPG, KToParam, KUnmarshal, KNewDriver:
		default:
			if op.Shared >= 0 {
				zsimrt.CountPause(true)                // in the simulated run the shared subject exists before the operation starts
				e = buildExpr(&w.sc.Shared[op.Shared]) // a fresh, unshared copy
				shared = true
			} else if op.Priv != nil {
				e = buildExpr(op.Priv)         // part of the operation, as in the simulated run
				shared = op.Kind != KEditPrint // immutability is checked for private subjects too (editprint edits its own tree on purpose)
			}
			zsimrt.CountPause(true)
			if shared && e != nil {
				before = takeFP(e, true)
			}
			zsimrt.CountPause(false)
		}
		var re func() string
		res, re = doCall(op, e, func(f func() string) string {
			zsimrt.CountPause(true) // canonicalisation is not part of the operation
			defer zsimrt.CountPause(false)
			return f()
		})
		steps = zsimrt.CountEnd()
		if re != nil {
			w.soloRe = append(w.soloRe, soloRecheck{t, i, res, re})
		}
		if oe := optsFor(op); oe != nil {
			if why := oe.check(); why != "" {
				w.note(soloSlot, &Violation{Oracle: "O2-solo", Task: t, Op: i, Kind: op.Kind,
					What: "the call, made alone, modified its argument: " + why})
			}
		}
		if shared && e != nil {
			after := takeFP(e, true)
			if after != before {
				what := "structure"
				if after.structure == before.structure && after.identity != before.identity {
					what = "node identity"
				} else if after.structure == before.structure {
					what = "printed form"
				}
				w.note(soloSlot, &Violation{Oracle: "O2-solo", Task: t, Op: i, Kind: op.Kind,
					What: "the operation, run alone, modified its argument (" + what + ")",
					Want: before.full, Got: after.full})
			}
		}
		completed = true
	}
	if op.Fault != nil && op.Fault.Kind == FExit {
		// runtime.Goexit needs a goroutine of its own
		done := make(chan struct{})
		go func() { defer close(done); run() }()
		<-done
	} else {
		run()
	}
	return res, steps
}

// Outcome is everything one run produced.
type Outcome struct {
	Scenario  *Scenario
	Stats     zsimrt.Stats
	Decisions []zsimrt.Decision
	Viol      *Violation
	RefDigest uint64 // hash of the solo results: a function of the scenario alone, must be the same in every process
	Digest    uint64 // hash of every result (reference and simulated): the same whenever the schedule is the same
	Ops       int
	OpsRun    int
	Fired     map[string]int
	CBCalls   int
	SoloSteps uint64
	Skipped   int
	Probes    map[string]int
}

// runScenario executes one scenario: reference pass A, simulated run, reference
// pass B (order: sim first when cold). replay, when non-nil, is the explicit
// decision list to apply instead of drawing from r.
func runScenario(sc *Scenario, r *zsimrt.Rand, replay []zsimrt.Decision) *Outcome {
	out := &Outcome{Scenario: sc, Fired: map[string]int{}, Probes: map[string]int{}}
	w := &world{sc: sc}
	nT := len(sc.Tasks)
	idx, total := sc.flat()
	out.Ops = total
	w.results = make([][]string, nT)
	w.steps = make([][]uint64, nT)
	w.limits = make([][]uint64, nT)
	w.recheck = make([][]func() string, nT)
	for t := range sc.Tasks {
		w.results[t] = make([]string, len(sc.Tasks[t]))
		w.steps[t] = make([]uint64, len(sc.Tasks[t]))
		w.limits[t] = make([]uint64, len(sc.Tasks[t]))
		w.recheck[t] = make([]func() string, len(sc.Tasks[t]))
	}
	refA := make([]string, total)
	refB := make([]string, total)
	soloSteps := make([]uint64, total)
	taskOf := make([]int, total)
	opOf := make([]int, total)
	for t := range sc.Tasks {
		for i := range sc.Tasks[t] {
			taskOf[idx[t][i]] = t
			opOf[idx[t][i]] = i
		}
	}

	// O6 for the solo passes: every raw result kept until the pass is over still
	// canonicalises to what it did when it was returned
	soloStable := func() {
		for _, sr := range w.soloRe {
			if now := guarded(sr.f); now != sr.res {
				w.note(soloSlot, &Violation{Oracle: "O6", Task: sr.t, Op: sr.i, Kind: sc.Tasks[sr.t][sr.i].Kind,
					What: "a value returned by a call made alone changed after later calls (it aliases state the library kept using)",
					Want: sr.res, Got: now})
			}
		}
		w.soloRe = nil
	}
	passA := func() {
		zsimrt.SetMapSeed(sc.MapSeed*3 + 1) // each pass iterates maps in its own order
		for f := 0; f < total; f++ {
			refA[f], soloSteps[f] = w.soloOp(taskOf[f], opOf[f])
			out.SoloSteps += soloSteps[f]
			probeOffer(sc, taskOf[f], opOf[f], refA[f])
		}
		soloStable()
	}
	passB := func() {
		zsimrt.SetMapSeed(sc.MapSeed*5 + 2)
		zsimrt.ClockAdvance(sc.ClockGaps[1])
		seen := make([]bool, total)
		for _, f := range sc.RefOrder {
			if f < 0 || f >= total || seen[f] {
				continue
			}
			seen[f] = true
			refB[f], _ = w.soloOp(taskOf[f], opOf[f])
		}
		for f := 0; f < total; f++ { // a hand-edited or minimised scenario may not list every operation
			if !seen[f] {
				refB[f], _ = w.soloOp(taskOf[f], opOf[f])
			}
		}
		soloStable()
	}

	sim := func() {
		zsimrt.SetMapSeed(sc.MapSeed)
		zsimrt.ClockAdvance(sc.ClockGaps[0])
		// shared pool
		n := len(sc.Shared)
		w.shared = make([]*expr.Expression, n)
		w.pub = make([]atomic.Pointer[expr.Expression], n)
		w.fp = make([]fingerprint, n)
		w.fpSet = make([]bool, n)
		for i := range sc.Shared {
			if sc.Shared[i].Late {
				continue
			}
			w.shared[i] = buildExpr(&sc.Shared[i])
			w.fp[i] = takeFP(w.shared[i], !sc.Cold && !sc.SimFirst)
			w.fpSet[i] = true
		}
		var totalEst uint64
		for t := range sc.Tasks {
			for i := range sc.Tasks[t] {
				s := soloSteps[idx[t][i]]
				totalEst += s + 2
				// L2 bound: absolute, far above what any input of the workload needs alone.
				// (It used to be 50 x the solo step count; a legitimate cache makes the
				// solo run a cheap hit and the simulated run a full computation, so a
				// relative bound raised a false alarm on a correct memoising change.)
				w.limits[t][i] = opStepLimit
				if 200*s > w.limits[t][i] {
					w.limits[t][i] = 200 * s
				}
				if sc.Giant {
					w.limits[t][i] = giantOpStepLimit
				}
			}
		}
		cfg := zsimrt.Config{
			Policy:    policyID(sc.Sched.Policy),
			MeanGap:   sc.Sched.MeanGap,
			Quantum:   sc.Sched.Quantum,
			PCTDepth:  sc.Sched.PCTDepth,
			TotalEst:  totalEst,
			SingleA:   sc.Sched.SingleA % nT,
			GCPermil:  sc.Sched.GCPermil,
			StallPerm: sc.Sched.StallPermil,
			StallMean: sc.Sched.StallMean,
			SyncQ:     sc.Sched.SyncQ,
			ClockPerm: sc.Sched.ClockPermil,
			HookEvery: sc.O2Every,
			StepCap:   100_000_000,
		}
		if sc.Giant {
			cfg.StepCap = 400_000_000
		}
		if cfg.Policy == zsimrt.PolSingle {
			var aSteps uint64
			for i := range sc.Tasks[cfg.SingleA] {
				aSteps += soloSteps[idx[cfg.SingleA][i]] + 2
			}
			cfg.SingleAt = 1 + aSteps*uint64(sc.Sched.SinglePerm)/1000
		}
		if replay != nil {
			cfg.Policy = zsimrt.PolReplay
			cfg.Replay = replay
		}
		if sc.O2Every > 0 {
			zsimrt.StepHook = func() {
				c := zsimrt.Cur()
				for i := range sc.Shared {
					w.checkShared(i, c, c, -1, "", "while operations were in progress")
				}
			}
		} else {
			zsimrt.StepHook = nil
		}
		var initial []int
		for t := 0; t < nT; t++ {
			if t < len(sc.Late) && sc.Late[t] {
				continue
			}
			initial = append(initial, t)
		}
		taskBody := func(t int) {
			for i := range sc.Tasks[t] {
				w.simOp(t, i)
			}
		}
		if zsimrt.Instrumented {
			out.Stats, out.Decisions = zsimrt.Run(cfg, r, nT, initial, taskBody)
		} else {
			zsimrt.StepHook = nil
			zsimrt.RunFree(nT, initial, taskBody) // degraded mode
		}
		// O6: every value a task was handed back still canonicalises to what it did then
		for t := range sc.Tasks {
			for i, re := range w.recheck[t] {
				if re == nil || w.results[t][i] == resNotRun || strings.HasPrefix(w.results[t][i], "abort:") || strings.HasPrefix(w.results[t][i], "panic:") || w.results[t][i] == "exit" {
					continue
				}
				if now := guarded(re); now != w.results[t][i] {
					w.note(soloSlot, &Violation{Oracle: "O6", Task: t, Op: i, Kind: sc.Tasks[t][i].Kind,
						What: "a value returned to a task changed after the call returned (it aliases state the library kept using)",
						Want: w.results[t][i], Got: now})
				}
			}
		}
		// end of run: every shared expression is what it was when it was created
		for i := range sc.Shared {
			if !w.fpSet[i] {
				continue
			}
			e := w.shared[i]
			if sc.Shared[i].Late {
				e = w.pub[i].Load()
			}
			w.checkShared(i, soloSlot, -1, -1, "", "at the end of the run")
			if w.fp[i].haveFull && e != nil {
				if got := canonFull(e); got != w.fp[i].full {
					w.note(soloSlot, &Violation{Oracle: "O2", Task: -1, Op: -1,
						What: fmt.Sprintf("shared expression #%d prints differently at the end of the run", i),
						Want: w.fp[i].full, Got: got})
				}
			}
		}
	}

	// one shared byte slice per distinct JSON document (registered before anything runs)
	docPool = map[string][]byte{}
	for t := range sc.Tasks {
		for i := range sc.Tasks[t] {
			if op := &sc.Tasks[t][i]; op.Kind == KUnmarshal || op.Kind == KMisc {
				if _, ok := docPool[op.Query]; !ok {
					docPool[op.Query] = []byte(op.Query)
				}
			}
		}
	}
	ensureDrivers(sc.Cold)
	ensureOpts(sc)
	if sc.Cold || sc.SimFirst {
		sim()
		ensureDrivers(false)
		passA()
		passB()
	} else {
		passA()
		sim()
		passB()
	}

	// the JSON documents handed to Unmarshal are still what they were (arguments are only read)
	for doc, b := range docPool {
		if string(b) != doc {
			w.note(soloSlot, &Violation{Oracle: "O2", Task: -1, Op: -1, Kind: KUnmarshal,
				What: "the byte slice handed to json.Unmarshal was modified", Want: doc, Got: string(b)})
		}
	}

	// ---- oracles over the recorded results ----
	h := uint64(0xcbf29ce484222325)
	for f := 0; f < total; f++ {
		h = (h ^ fnv64(refA[f])) * 0x100000001b3
	}
	out.RefDigest = h
	var first *Violation
	keep := func(v *Violation) {
		if first == nil && v != nil {
			first = v
		}
	}
	// O2 / O2-solo noted during the run (lowest slot first: deterministic)
	for s := 0; s <= zsimrt.MaxTasks; s++ {
		keep(w.viol[s])
	}
	for t := range sc.Tasks {
		for i := range sc.Tasks[t] {
			f := idx[t][i]
			op := &sc.Tasks[t][i]
			got := w.results[t][i]
			h = (h ^ fnv64(got)) * 0x100000001b3
			if got == resNotRun {
				out.Skipped++
				continue
			}
			out.OpsRun++
			if got == resSkipUnpub {
				out.Skipped++
				continue
			}
			if len(got) >= 6 && got[:6] == "abort:" {
				fair := (sc.Sched.Policy == "uniform" || sc.Sched.Policy == "rr" || sc.Sched.Policy == "targeted") && sc.Sched.StallPermil == 0 &&
					!sc.Giant && !strings.HasPrefix(refA[f], "abort:")
				if out.Stats.Overrun && out.Stats.OverrunTask == t && !fair {
					// under an unfair policy (PCT, single preemption) or an injected stall a legitimate
					// spin-wait inside the library could exceed any bound: recorded, not judged
					out.Probes["overrun_under_unfair_policy"]++
				}
				if out.Stats.Overrun && out.Stats.OverrunTask == t && fair {
					keep(&Violation{Oracle: "L2", Task: t, Op: i, Kind: op.Kind,
						What: fmt.Sprintf("operation did not finish within %d of its own steps (it needs %d alone): livelock or unbounded retry under this schedule", w.limits[t][i], soloSteps[f]),
						Want: refA[f], Step: out.Stats.OverrunStep})
				}
				continue // collateral of an aborted run
			}
			if len(refA[f]) >= 6 && refA[f][:6] == "abort:" {
				out.Probes["solo_step_cap"]++
				continue // the call does not finish within the solo step cap: no sequential result to compare with
			}
			if strings.HasPrefix(got, "editprint:STALE") {
				keep(&Violation{Oracle: "O5", Task: t, Op: i, Kind: op.Kind,
					What: "after a legal edit of a private tree, printing/rendering it differs from printing/rendering a fresh structural clone: the library remembered something about the tree from before the edit",
					Got:  got})
				continue
			}
			if got != refA[f] {
				keep(&Violation{Oracle: "O1", Task: t, Op: i, Kind: op.Kind,
					What: "result under the simulated schedule differs from the same call run alone",
					Want: refA[f], Got: got})
			}
		}
	}
	for f := 0; f < total; f++ {
		if strings.HasPrefix(refA[f], "editprint:STALE") {
			t, i := taskOf[f], opOf[f]
			keep(&Violation{Oracle: "O5", Task: t, Op: i, Kind: sc.Tasks[t][i].Kind,
				What: "after a legal edit of a private tree, printing/rendering it (alone, no concurrency) differs from printing/rendering a fresh structural clone",
				Got:  refA[f]})
		}
		if strings.HasPrefix(refA[f], "abort:") || strings.HasPrefix(refB[f], "abort:") {
			continue // one of the solo runs did not finish within the solo step cap: nothing to compare
		}
		if refA[f] != refB[f] {
			t, i := taskOf[f], opOf[f]
			keep(&Violation{Oracle: "O5", Task: t, Op: i, Kind: sc.Tasks[t][i].Kind,
				What: "the same call, run alone twice in one process, gave two different results",
				Want: refA[f], Got: refB[f]})
		}
	}
	if out.Stats.Deadlock && first == nil {
		exitFault := false
		for t := range w.fired {
			if w.fired[t][FExit] > 0 || w.fired[t][FPanic] > 0 {
				exitFault = true
			}
		}
		if !exitFault {
			keep(&Violation{Oracle: "L1", Task: -1, Op: -1, What: "every unfinished task waits for a lock held by another waiting task"})
		} else {
			out.Probes["deadlock_after_injected_exit_or_panic"]++
		}
	}
	for i := range dagProbe {
		if dagProbe[i] > 0 {
			out.Probes["parse_results_that_share_a_node_between_two_places"] += int(dagProbe[i])
			dagProbe[i] = 0
		}
	}
	for t := range sc.Tasks {
		for i := range sc.Tasks[t] {
			if sc.Tasks[t][i].Opts != 0 {
				out.Probes["calls_passing_a_caller_owned_option_slice"]++
			}
		}
	}
	if out.Stats.TooManyGo {
		// the library had more goroutines alive at once than the simulator has task slots: the
		// run was wound down half way; nothing in it is judged
		out.Probes["runs_not_judged_too_many_library_goroutines_alive"]++
		first = nil
	}
	if lp := zsimrt.TakeLibPanic(); lp != "" {
		// a goroutine started by the library panicked: a production process would have died, in a
		// sequential run just the same. Nothing to compare; the run is not judged.
		out.Probes["runs_not_judged_a_library_goroutine_panicked"]++
		if debugLibPanic {
			println("LIBPANIC:", lp)
		}
		first = nil
	}
	out.Viol = first
	out.Digest = h
	for t := range w.fired {
		for k, n := range w.fired[t] {
			out.Fired[k] += n
		}
		out.CBCalls += w.cbCalls[t]
	}
	return out
}

// ---- probes: operations re-evaluated in brand-new processes (oracle O4b) -----------
//
// A worker process accumulates whatever state the library keeps between calls. The
// solo passes compare a call with itself inside that process, so a result that was
// bent once and for all by something the process did EARLIER (a cache keyed too
// coarsely that remembers the first spelling it saw, say) looks consistent from
// inside. The orchestrator therefore re-evaluates a sample of operations, each in a
// brand-new process that does nothing else, and compares: the result of a call that
// is a function of its arguments alone cannot depend on which process made it.

// Probe is one self-contained operation with the result the worker's solo pass gave.
type Probe struct {
	Op  Op     `json:"op"`
	Res string `json:"res"`
}

var (
	probeCap  int
	probes    []Probe
	probeSeen uint64
	probeRand *zsimrt.Rand
)

func probeOffer(sc *Scenario, t, i int, res string) {
	if probeCap == 0 {
		return
	}
	op := sc.Tasks[t][i]
	switch op.Kind {
	case KSpawn, KPublish, KNewDriver:
		return
	}
	if strings.HasPrefix(res, "abort:") || sc.Giant {
		return
	}
	probeSeen++
	slot := -1
	if len(probes) < probeCap {
		slot = len(probes)
		probes = append(probes, Probe{})
	} else if j := probeRand.Uint64n(probeSeen); j < uint64(probeCap) {
		slot = int(j) // reservoir sampling
	}
	if slot < 0 {
		return
	}
	if op.Shared >= 0 { // make it self-contained: the solo pass rebuilds shared subjects from their spec anyway
		sp := sc.Shared[op.Shared]
		sp.Late = false
		op.Priv = &sp
		op.Shared = -1
	}
	probes[slot] = Probe{Op: op, Res: res}
}

// runProbe evaluates one probe the way a solo pass does, in this (fresh) process.
func runProbe(p *Probe) string {
	sc := &Scenario{Tasks: [][]Op{{p.Op}}, MapSeed: 1}
	w := &world{sc: sc}
	ensureDrivers(false)
	ensureOpts(sc)
	docPool = map[string][]byte{}
	zsimrt.SetMapSeed(1)
	res, _ := w.soloOp(0, 0)
	return res
}

var debugLibPanic = os.Getenv("ZSIM_DEBUG") != ""
