// Command zsim is the C14 simulation worker. It is built inside an instrumented
// scratch copy of the repository and run by the orchestrator (/verif/sim/cmd/c14)
// with GOMAXPROCS=1. One run index = one PRNG seed = one exactly repeatable
// scenario + schedule + fault sequence.
package main

import (
	"bufio"
	"encoding/binary"
	"encoding/json"
	"flag"
	"fmt"
	"os"
	"runtime"
	"runtime/debug"
	"runtime/pprof"
	"time"

	"github.com/grindlemire/go-lucene/internal/zsimrt"
)

// ReplayFile is the on-disk form of one explicit execution.
type ReplayFile struct {
	Property   string            `json:"property"`
	Base       uint64            `json:"base_seed"`
	Run        uint64            `json:"run"`
	Seed       uint64            `json:"seed"`
	Build      string            `json:"build"` // "plain" | "race"
	Scenario   *Scenario         `json:"scenario"`
	Decisions  []zsimrt.Decision `json:"decisions"`
	Violation  *Violation        `json:"violation,omitempty"`
	History    *History          `json:"history,omitempty"`
	GiantEvery uint64            `json:"giant_every,omitempty"` // scenario generation parameter of the original run (history / seed replays regenerate scenarios)
	Probe      *Probe            `json:"probe,omitempty"`       // O4b: the operation whose answer differs between this history and a brand-new process
	ProbeWant  string            `json:"probe_want,omitempty"`  // ... and what a brand-new process answers
	Signature  string            `json:"signature"`
	RaceSig    string            `json:"race_signature,omitempty"`
	Minimised  bool              `json:"minimised"`
	Note       string            `json:"note,omitempty"`
	Repro      string            `json:"reproduce,omitempty"`
}

// History names the runs a worker process executed before a given run. Library
// state that outlives a call (a cache, a pool) makes a run depend on them; a
// replay file that carries a History re-executes those runs first.
type History struct {
	From      uint64 `json:"from"`
	Stride    uint64 `json:"stride"`
	Count     uint64 `json:"count"`
	ColdFirst bool   `json:"cold_first,omitempty"`
}

type violRec struct {
	T         string            `json:"t"`
	Hist      *History          `json:"history,omitempty"`
	Run       uint64            `json:"run"`
	Seed      uint64            `json:"seed"`
	Viol      *Violation        `json:"viol"`
	Scenario  *Scenario         `json:"scenario"`
	Decisions []zsimrt.Decision `json:"decisions"`
	Overflow  bool              `json:"decision_overflow,omitempty"`
}

type runRec struct {
	T       string `json:"t"`
	Run     uint64 `json:"run"`
	Seed    uint64 `json:"seed"`
	Digest  uint64 `json:"digest"`
	RefDig  uint64 `json:"refdigest"`
	PathSig uint64 `json:"pathsig"`
	Steps   uint64 `json:"steps"`
	NDec    int    `json:"ndec"`
}

type sample struct {
	Run       uint64            `json:"run"`
	Seed      uint64            `json:"seed"`
	Scenario  *Scenario         `json:"scenario"`
	Steps     uint64            `json:"steps"`
	Switches  uint64            `json:"switches"`
	Decisions []zsimrt.Decision `json:"first_decisions"`
	NDec      int               `json:"decisions_total"`
}

type summary struct {
	T           string            `json:"t"`
	Race        bool              `json:"race"`
	Runs        uint64            `json:"runs"`
	ColdRuns    uint64            `json:"cold_runs"`
	Violations  int               `json:"violations"`
	Steps       uint64            `json:"steps"`
	SoloSteps   uint64            `json:"solo_steps"`
	Switches    uint64            `json:"switches"`
	Preempts    uint64            `json:"preempts"`
	Contended   uint64            `json:"contended_preempts"`
	NontrivRuns uint64            `json:"nontrivial_runs"`
	DistinctSig int               `json:"distinct_sigs_worker"`
	Ops         uint64            `json:"ops"`
	OpsRun      uint64            `json:"ops_run"`
	OpsSkipped  uint64            `json:"ops_skipped"`
	OpKinds     map[string]uint64 `json:"op_kinds"`
	Policies    map[string]uint64 `json:"policies"`
	Shapes      map[string]uint64 `json:"shapes"`
	Fired       map[string]uint64 `json:"faults_fired"`
	CBCalls     uint64            `json:"callback_calls"`
	GCs         uint64            `json:"gcs"`
	ClockJumps  uint64            `json:"clock_jumps"`
	ClockReads  uint64            `json:"clock_reads"`
	Stalls      uint64            `json:"stalls"`
	StallOps    uint64            `json:"ops_completed_during_stall"`
	LockWaits   uint64            `json:"lock_waits"`
	LibGo       uint64            `json:"library_goroutines"`
	ChanOps     uint64            `json:"channel_ops"`
	ChanWaits   uint64            `json:"channel_waits"`
	Poison      string            `json:"poison,omitempty"`
	LateSpawns  uint64            `json:"late_spawns"`
	Publishes   uint64            `json:"publishes"`
	Capped      uint64            `json:"capped_runs"`
	Overruns    uint64            `json:"overrun_runs"`
	DecOverflow uint64            `json:"decision_overflow_runs"`
	O2Cadence   map[string]uint64 `json:"o2_cadence"`
	Probes      map[string]uint64 `json:"probes"`
	SiteHits    []uint64          `json:"site_hits"`
	PairCount   int               `json:"site_pairs"`
	Samples     []sample          `json:"samples"`
	FreshProbes []Probe           `json:"fresh_probes,omitempty"`
	WallMS      int64             `json:"wall_ms"`
	First       uint64            `json:"first_run"`
	Last        uint64            `json:"last_run"`
}

func main() {
	var (
		base      = flag.Uint64("base", 1, "base seed (VERIF_SEED)")
		from      = flag.Uint64("from", 0, "first run index")
		stride    = flag.Uint64("stride", 1, "run index stride")
		count     = flag.Uint64("count", 0, "number of runs (0: until the budget is used)")
		budgetMS  = flag.Int64("budget-ms", 0, "wall-clock budget")
		coldFirst = flag.Bool("cold-first", false, "the first run of this process simulates before any other use of the library")
		digests   = flag.Bool("digests", false, "emit one record per run")
		sigPath   = flag.String("sigs", "", "file to append the schedule signatures of non-trivial runs to")
		replay    = flag.String("replay", "", "replay file")
		nSamples  = flag.Int("samples", 2, "scenario samples to include in the summary")
		maxViol   = flag.Int("max-viol", 3, "stop after this many violations")
		dump      = flag.Uint64("dump", 0, "print the scenario of this run index and exit")
		dumpOn    = flag.Bool("dump-on", false, "enable -dump")
		giant     = flag.Uint64("giant-every", 0, "every n-th run index is a giant-input scenario (0: never)")
		cpuprof   = flag.String("cpuprofile", "", "write a CPU profile (development)")
		nProbes   = flag.Int("probes", 0, "sample this many operations (with their solo results) for re-evaluation in fresh processes")
		probeFile = flag.String("probe", "", "evaluate the probe in this file in this fresh process and print the result")
		execs     = flag.Bool("execs", false, "emit the explicit execution (scenario + decisions) of every run")
	)
	flag.Parse()
	if *cpuprof != "" {
		f, err := os.Create(*cpuprof)
		if err == nil {
			pprof.StartCPUProfile(f)
			defer pprof.StopCPUProfile()
		}
	}
	giantEvery = *giant
	debug.SetGCPercent(-1) // GC happens only where the scheduler injects it, and between runs
	out := bufio.NewWriterSize(os.Stdout, 1<<16)
	defer out.Flush()
	emit := func(v any) {
		b, err := json.Marshal(v)
		if err != nil {
			fmt.Fprintln(os.Stderr, "zsim: marshal:", err)
			os.Exit(2)
		}
		out.Write(b)
		out.WriteByte('\n')
	}

	// The simulator found, at run time, that it cannot own what this library does with goroutines
	// or channels: from here on nothing this process computes means anything (a polling select
	// never fires, a parser loops on a channel closed by an unwinding goroutine). Say so and stop.
	zsimrt.OnPoison = func(why string) {
		b, _ := json.Marshal(summary{T: "sum", Race: raceEnabled, Poison: why})
		out.Flush()
		os.Stdout.Write(append(append([]byte("\n"), b...), '\n'))
		os.Exit(0)
	}

	if *probeFile != "" {
		b, err := os.ReadFile(*probeFile)
		var p Probe
		if err != nil || json.Unmarshal(b, &p) != nil {
			fmt.Fprintln(os.Stderr, "zsim: bad probe file")
			os.Exit(2)
		}
		emit(struct {
			T   string `json:"t"`
			Res string `json:"res"`
		}{"probe", runProbe(&p)})
		return
	}
	probeCap = *nProbes
	probeRand = zsimrt.NewRand(*base ^ (*from+1)*0x9e3779b97f4a7c15)

	c := loadCorpus()

	if *replay != "" {
		os.Exit(doReplay(*replay, emit, out))
	}
	if *dumpOn {
		seed := zsimrt.SeedFor(*base, *dump)
		sc := genScenario(zsimrt.NewRand(seed), *dump, seed, false, c)
		b, _ := json.MarshalIndent(sc, "", " ")
		fmt.Println(string(b))
		return
	}

	start := time.Now()
	var sigFile *bufio.Writer
	if *sigPath != "" {
		f, err := os.OpenFile(*sigPath, os.O_CREATE|os.O_WRONLY|os.O_APPEND, 0o644)
		if err != nil {
			fmt.Fprintln(os.Stderr, "zsim:", err)
			os.Exit(2)
		}
		defer f.Close()
		sigFile = bufio.NewWriter(f)
		defer sigFile.Flush()
	}
	sum := summary{T: "sum", Race: raceEnabled, OpKinds: map[string]uint64{}, Policies: map[string]uint64{}, Shapes: map[string]uint64{},
		Fired: map[string]uint64{}, O2Cadence: map[string]uint64{}, Probes: map[string]uint64{}, First: *from}
	sigs := map[uint64]struct{}{}
	errw := bufio.NewWriter(os.Stderr)

	for k := uint64(0); ; k++ {
		if *count > 0 && k >= *count {
			break
		}
		if *budgetMS > 0 && k > 0 && time.Since(start).Milliseconds() >= *budgetMS {
			break
		}
		if *count == 0 && *budgetMS == 0 {
			break
		}
		run := *from + k**stride
		seed := zsimrt.SeedFor(*base, run)
		r := zsimrt.NewRand(seed)
		cold := *coldFirst && k == 0
		sc := genScenario(r, run, seed, cold, c)
		if raceEnabled {
			fmt.Fprintf(errw, "@@RUN %d %d\n", run, seed)
			errw.Flush()
		}
		if sc.Giant {
			debug.SetGCPercent(100) // giant inputs allocate gigabytes of intermediate strings: let the collector run
		}
		o := runScenario(sc, r, nil)
		if sc.Giant {
			debug.SetGCPercent(-1)
			runtime.GC()
		}
		if !zsimrt.Instrumented {
			// degraded mode: the Go scheduler picks the interleaving; repeat the scenario a few times
			reps := 7
			if sc.Giant {
				reps = 1
			}
			for rep := 0; rep < reps && o.Viol == nil; rep++ {
				if *budgetMS > 0 && time.Since(start).Milliseconds() >= *budgetMS*2 {
					break
				}
				o = runScenario(sc, r, nil)
			}
		}
		if raceEnabled {
			fmt.Fprintf(errw, "@@END %d\n", run)
			errw.Flush()
		}
		if why := zsimrt.Poisoned(); why != "" {
			// the simulator cannot own what this library does with goroutines or channels: nothing
			// from this run is used, the worker stops and the check falls back to the degraded mode
			sum.Poison = why
			break
		}
		sum.Last = run
		account(&sum, o, sigs, sigFile)
		if len(sum.Samples) < *nSamples && o.Stats.Switches > 0 {
			d := o.Decisions
			if len(d) > 24 {
				d = d[:24]
			}
			sum.Samples = append(sum.Samples, sample{Run: run, Seed: seed, Scenario: sc, Steps: o.Stats.Steps,
				Switches: o.Stats.Switches, Decisions: d, NDec: len(o.Decisions)})
		}
		if *digests {
			emit(runRec{T: "run", Run: run, Seed: seed, Digest: o.Digest, RefDig: o.RefDigest, PathSig: o.Stats.Sig, Steps: o.Stats.Steps, NDec: len(o.Decisions)})
		}
		if *execs {
			emit(violRec{T: "exec", Run: run, Seed: seed, Scenario: sc, Decisions: o.Decisions, Overflow: o.Stats.DecOverflow,
				Hist: &History{From: *from, Stride: *stride, Count: k, ColdFirst: *coldFirst}})
		}
		if o.Viol != nil {
			sum.Violations++
			emit(violRec{T: "viol", Run: run, Seed: seed, Viol: o.Viol, Scenario: sc, Decisions: o.Decisions, Overflow: o.Stats.DecOverflow,
				Hist: &History{From: *from, Stride: *stride, Count: k, ColdFirst: *coldFirst}})
			out.Flush()
			if sum.Violations >= *maxViol {
				break
			}
		}
		if k%64 == 63 {
			runtime.GC()
		}
	}
	sum.FreshProbes = probes
	sum.ClockReads = zsimrt.ClockReads
	sum.SiteHits = zsimrt.SiteHits
	sum.PairCount = zsimrt.PairCount()
	sum.DistinctSig = len(sigs)
	sum.WallMS = time.Since(start).Milliseconds()
	emit(sum)
}

func account(sum *summary, o *Outcome, sigs map[uint64]struct{}, sigFile *bufio.Writer) {
	sc := o.Scenario
	sum.Runs++
	if sc.Cold {
		sum.ColdRuns++
	}
	sum.Steps += o.Stats.Steps
	sum.SoloSteps += o.SoloSteps
	sum.Switches += o.Stats.Switches
	sum.Preempts += o.Stats.Preempts
	sum.Contended += o.Stats.Contended
	sum.Ops += uint64(o.Ops)
	sum.OpsRun += uint64(o.OpsRun)
	sum.OpsSkipped += uint64(o.Skipped)
	sum.GCs += o.Stats.GCs
	sum.ClockJumps += o.Stats.ClockJumps
	sum.Stalls += o.Stats.Stalls
	sum.StallOps += o.Stats.StallOps
	sum.LockWaits += o.Stats.LockWaits
	sum.LibGo += o.Stats.LibGo
	sum.ChanOps += o.Stats.ChanOps
	sum.ChanWaits += o.Stats.ChanWaits
	sum.CBCalls += uint64(o.CBCalls)
	sum.Policies[sc.Sched.Policy]++
	sum.Shapes[sc.Shape]++
	for k, n := range o.Fired {
		sum.Fired[k] += uint64(n)
	}
	for k, n := range o.Probes {
		sum.Probes[k] += uint64(n)
	}
	for _, ops := range sc.Tasks {
		for i := range ops {
			sum.OpKinds[ops[i].Kind]++
			switch ops[i].Kind {
			case KSpawn:
				sum.LateSpawns++
			case KPublish:
				sum.Publishes++
			}
		}
	}
	if o.Stats.Capped {
		sum.Capped++
	}
	if o.Stats.Overrun {
		sum.Overruns++
	}
	if o.Stats.DecOverflow {
		sum.DecOverflow++
	}
	switch sc.O2Every {
	case 0:
		sum.O2Cadence["boundaries"]++
	case 1:
		sum.O2Cadence["every_step"]++
	default:
		sum.O2Cadence[fmt.Sprintf("every_%d", sc.O2Every)]++
	}
	// non-trivial: at least one preemption inside an operation whose argument was
	// simultaneously in use by another task that was itself inside an operation
	nontrivial := o.Stats.Contended > 0
	if !zsimrt.Instrumented {
		// degraded mode: no preemption data; count scenarios in which at least two tasks
		// operate on the same shared expression, identified by their seed
		users := map[int]map[int]bool{}
		for t, ops := range sc.Tasks {
			for i := range ops {
				if ops[i].Shared >= 0 {
					if users[ops[i].Shared] == nil {
						users[ops[i].Shared] = map[int]bool{}
					}
					users[ops[i].Shared][t] = true
				}
			}
		}
		for _, u := range users {
			if len(u) >= 2 {
				nontrivial = true
			}
		}
		o.Stats.Sig = sc.Seed
	}
	if nontrivial {
		sum.NontrivRuns++
		if _, dup := sigs[o.Stats.Sig]; !dup {
			sigs[o.Stats.Sig] = struct{}{}
			if sigFile != nil {
				var b [8]byte
				binary.LittleEndian.PutUint64(b[:], o.Stats.Sig)
				sigFile.Write(b[:])
			}
		}
	}
}

func doReplay(path string, emit func(any), out *bufio.Writer) int {
	b, err := os.ReadFile(path)
	if err != nil {
		fmt.Fprintln(os.Stderr, "zsim:", err)
		return 2
	}
	var rf ReplayFile
	if err := json.Unmarshal(b, &rf); err != nil || rf.Scenario == nil && rf.Probe == nil {
		fmt.Fprintln(os.Stderr, "zsim: bad replay file:", err)
		return 2
	}
	giantEvery = rf.GiantEvery
	if h := rf.History; h != nil && h.Count > 0 {
		// re-create the library state the original process had accumulated
		c := loadCorpus()
		for j := uint64(0); j < h.Count; j++ {
			run := h.From + j*h.Stride
			seed := zsimrt.SeedFor(rf.Base, run)
			r := zsimrt.NewRand(seed)
			sc := genScenario(r, run, seed, h.ColdFirst && j == 0, c)
			runScenario(sc, r, nil)
		}
	}
	if rf.Probe != nil {
		// O4b replay: after the history, the operation (run alone) must answer what a brand-new process answers
		got := runProbe(rf.Probe)
		if got != rf.ProbeWant {
			emit(violRec{T: "viol", Run: rf.Run, Seed: rf.Seed, Viol: &Violation{Oracle: "O4", Task: -1, Op: -1, Kind: rf.Probe.Op.Kind,
				What: "after the recorded history of calls, this call answers differently from a brand-new process", Want: rf.ProbeWant, Got: got}})
		}
		out.Flush()
		return 0
	}
	if raceEnabled {
		fmt.Fprintf(os.Stderr, "@@RUN %d %d\n", rf.Run, rf.Seed)
	}
	var o *Outcome
	if rf.Decisions == nil {
		// seed-only replay: regenerate the schedule from the PRNG exactly as the original run did
		r := zsimrt.NewRand(rf.Seed)
		c := loadCorpus()
		sc := genScenario(r, rf.Run, rf.Seed, rf.Scenario.Cold, c)
		o = runScenario(sc, r, nil)
	} else {
		if rf.Scenario.Giant {
			debug.SetGCPercent(100)
		}
		o = runScenario(rf.Scenario, nil, rf.Decisions)
	}
	if raceEnabled {
		fmt.Fprintf(os.Stderr, "@@END %d\n", rf.Run)
	}
	emit(runRec{T: "run", Run: rf.Run, Seed: rf.Seed, Digest: o.Digest, RefDig: o.RefDigest, PathSig: o.Stats.Sig, Steps: o.Stats.Steps, NDec: len(o.Decisions)})
	if o.Viol != nil {
		emit(violRec{T: "viol", Run: rf.Run, Seed: rf.Seed, Viol: o.Viol, Scenario: o.Scenario, Decisions: o.Decisions})
	}
	out.Flush()
	return 0
}
