package main

import (
	"fmt"
	"reflect"
	"regexp"
	"strconv"
	"strings"
	"unsafe"

	"github.com/grindlemire/go-lucene/internal/zsimrt"
	"github.com/grindlemire/go-lucene/pkg/lucene/expr"
)

// Canonical forms: what "identical" means for O1/O2/O4/O5.
//
// For an expression: a type-tagged walk over the exported structure (int 5,
// float64 5, "5", Column are all distinct; slice contents up to CAPACITY, so a
// write into a shared backing array beyond len is visible) plus the two
// operator-specific private numbers, plus — in the full form — String() and
// GoString().

var (
	offBoost = fieldOffset("boostPower", reflect.Float64)
	offFuzzy = fieldOffset("fuzzyDistance", reflect.Int)
)

// fieldOffset finds a private field of expr.Expression by name and kind; -1 if
// a refactoring removed or retyped it (then it is simply not part of the walk).
func fieldOffset(name string, kind reflect.Kind) int {
	f, ok := reflect.TypeOf(expr.Expression{}).FieldByName(name)
	if !ok || f.Type.Kind() != kind {
		return -1
	}
	return int(f.Offset)
}

func privBoost(e *expr.Expression) float64 {
	if offBoost < 0 {
		return 0
	}
	return *(*float64)(unsafe.Add(unsafe.Pointer(e), offBoost))
}

func privFuzzy(e *expr.Expression) int {
	if offFuzzy < 0 {
		return 0
	}
	return *(*int)(unsafe.Add(unsafe.Pointer(e), offFuzzy))
}

func setPriv(e *expr.Expression, boost float64, fuzzy int) {
	if offBoost >= 0 {
		*(*float64)(unsafe.Add(unsafe.Pointer(e), offBoost)) = boost
	}
	if offFuzzy >= 0 {
		*(*int)(unsafe.Add(unsafe.Pointer(e), offFuzzy)) = fuzzy
	}
}

type canonW struct {
	sb    strings.Builder
	depth int
}

const canonMaxDepth = 4000

func (w *canonW) val(v any) {
	w.depth++
	defer func() { w.depth-- }()
	if w.depth > canonMaxDepth {
		w.sb.WriteString("<deep>")
		return
	}
	switch x := v.(type) {
	case nil:
		w.sb.WriteString("nil")
	case *expr.Expression:
		if x == nil {
			w.sb.WriteString("E(nil)")
			return
		}
		w.sb.WriteString("E{")
		w.sb.WriteString(strconv.Itoa(int(x.Op)))
		w.sb.WriteByte(' ')
		w.val(x.Left)
		w.sb.WriteByte(' ')
		w.val(x.Right)
		w.sb.WriteString(" b=")
		w.sb.WriteString(strconv.FormatFloat(privBoost(x), 'g', -1, 64))
		w.sb.WriteString(" f=")
		w.sb.WriteString(strconv.Itoa(privFuzzy(x)))
		w.sb.WriteByte('}')
	case expr.Expression:
		w.sb.WriteString("Ev")
		w.val(&x)
	case []*expr.Expression:
		if x == nil {
			w.sb.WriteString("L(nil)")
			return
		}
		fmt.Fprintf(&w.sb, "L[%d/%d", len(x), cap(x))
		for _, e := range x[:cap(x)] {
			w.sb.WriteByte(' ')
			w.val(e)
		}
		w.sb.WriteByte(']')
	case *expr.RangeBoundary:
		if x == nil {
			w.sb.WriteString("RB(nil)")
			return
		}
		w.sb.WriteString("RB{")
		w.val(x.Min)
		w.sb.WriteByte(' ')
		w.val(x.Max)
		w.sb.WriteByte(' ')
		w.sb.WriteString(strconv.FormatBool(x.Inclusive))
		w.sb.WriteByte('}')
	case expr.Column:
		w.sb.WriteString("col:")
		w.sb.WriteString(strconv.Quote(string(x)))
	case string:
		w.sb.WriteString("str:")
		w.sb.WriteString(strconv.Quote(x))
	case int:
		w.sb.WriteString("int:")
		w.sb.WriteString(strconv.Itoa(x))
	case float64:
		w.sb.WriteString("f64:")
		w.sb.WriteString(strconv.FormatFloat(x, 'g', -1, 64))
	case bool:
		w.sb.WriteString("bool:")
		w.sb.WriteString(strconv.FormatBool(x))
	case []any:
		fmt.Fprintf(&w.sb, "A[%d", len(x))
		for _, e := range x {
			w.sb.WriteByte(' ')
			w.val(e)
		}
		w.sb.WriteByte(']')
	default:
		w.sb.WriteString(maskAddrs(fmt.Sprintf("other:%T:%#v", v, v)))
	}
}

// canonStruct is the structural canonical form (no library calls: usable from
// the per-step hook).
func canonStruct(v any) string {
	var w canonW
	w.val(v)
	return w.sb.String()
}

// structHash hashes the structure and the node identities of an expression
// without calling library code and without allocating much.
func structHash(v any) (structure, identity uint64) {
	var h hasher
	h.walk(v, 0)
	return h.s, h.id
}

type hasher struct{ s, id uint64 }

func (h *hasher) add(x uint64)   { h.s = (h.s ^ x) * 0x100000001b3; h.s ^= h.s >> 29 }
func (h *hasher) addID(x uint64) { h.id = (h.id ^ x) * 0x100000001b3; h.id ^= h.id >> 29 }
func (h *hasher) str(s string) {
	h.add(uint64(len(s)))
	for i := 0; i < len(s); i++ {
		h.s = (h.s ^ uint64(s[i])) * 0x100000001b3
	}
}

func (h *hasher) walk(v any, depth int) {
	if depth > canonMaxDepth {
		h.add(0xdeadbeef)
		return
	}
	switch x := v.(type) {
	case nil:
		h.add(1)
	case *expr.Expression:
		if x == nil {
			h.add(2)
			return
		}
		h.add(3)
		h.addID(uint64(uintptr(unsafe.Pointer(x))))
		h.add(uint64(x.Op))
		h.walk(x.Left, depth+1)
		h.walk(x.Right, depth+1)
		h.add(uint64(int64(privBoost(x) * 1e6)))
		h.add(uint64(privFuzzy(x)))
	case []*expr.Expression:
		if x == nil {
			h.add(4)
			return
		}
		h.add(5)
		h.add(uint64(len(x)))
		h.add(uint64(cap(x)))
		if cap(x) > 0 {
			h.addID(uint64(uintptr(unsafe.Pointer(unsafe.SliceData(x)))))
		}
		for _, e := range x[:cap(x)] {
			h.walk(e, depth+1)
		}
	case *expr.RangeBoundary:
		if x == nil {
			h.add(6)
			return
		}
		h.add(7)
		h.addID(uint64(uintptr(unsafe.Pointer(x))))
		h.walk(x.Min, depth+1)
		h.walk(x.Max, depth+1)
		if x.Inclusive {
			h.add(8)
		}
	case expr.Column:
		h.add(9)
		h.str(string(x))
	case string:
		h.add(10)
		h.str(x)
	case int:
		h.add(11)
		h.add(uint64(x))
	case float64:
		h.add(12)
		h.add(uint64(int64(x * 1e6)))
		h.str(strconv.FormatFloat(x, 'g', -1, 64))
	case bool:
		h.add(13)
		if x {
			h.add(1)
		}
	default:
		h.add(14)
		h.str(maskAddrs(fmt.Sprintf("%T:%#v", v, v)))
	}
}

var addrRE = regexp.MustCompile(`0x[0-9a-fA-F]+`)

func maskAddrs(s string) string {
	if !strings.Contains(s, "0x") {
		return s
	}
	return addrRE.ReplaceAllString(s, "0x?")
}

// guarded runs f and turns a panic into a result string.
func guarded(f func() string) (out string) {
	defer func() {
		if r := recover(); r != nil {
			if _, ok := r.(zsimrt.Abort); ok {
				panic(r)
			}
			out = "panic:" + panicText(r)
		}
	}()
	return f()
}

func panicText(r any) string {
	switch v := r.(type) {
	case error:
		return maskAddrs(v.Error())
	case string:
		return maskAddrs(v)
	case fmt.Stringer:
		return maskAddrs(v.String())
	}
	return maskAddrs(fmt.Sprintf("%T:%v", r, r))
}

func errText(err error) string {
	if err == nil {
		return "<nil>"
	}
	// not masked: an error text that differs from run to run (an address, a
	// counter, a time) means the result is not a function of the arguments
	return "err:" + err.Error()
}

// canonFull is the full canonical form of an expression: structure plus the
// three printed forms. It calls library code (String, GoString, MarshalJSON),
// so inside a simulated run it must be bracketed by zsimrt.Quiet.
func canonFull(e *expr.Expression) string {
	if e == nil {
		return "E(nil)"
	}
	var sb strings.Builder
	cs := canonStruct(e)
	sb.WriteString(cs)
	if len(cs) > 60000 {
		// a giant tree: the printed forms are quadratic in the depth; the structural
		// form already determines them, so they are left out (deterministically)
		sb.WriteString("|printed forms omitted for a giant tree")
		return sb.String()
	}
	sb.WriteString("|S:")
	sb.WriteString(guarded(func() string { return e.String() }))
	sb.WriteString("|G:")
	sb.WriteString(guarded(func() string { return e.GoString() }))
	// The JSON form is not part of the fingerprint: the structural walk already covers
	// every field MarshalJSON reads, the marshal operations exercise the encoder itself,
	// and encoding every fingerprint cost a fifth of a worker's time.
	return sb.String()
}

func canonParams(ps []any) string {
	var sb strings.Builder
	fmt.Fprintf(&sb, "P[%d", len(ps))
	for _, p := range ps {
		sb.WriteByte(' ')
		sb.WriteString(maskAddrs(fmt.Sprintf("%T:%#v", p, p)))
	}
	sb.WriteByte(']')
	return sb.String()
}

func fnv64(s string) uint64 {
	h := uint64(0xcbf29ce484222325)
	for i := 0; i < len(s); i++ {
		h = (h ^ uint64(s[i])) * 0x100000001b3
	}
	return h
}
