package main

import (
	"encoding/json"
	"errors"
	"fmt"
	"runtime"
	"sort"
	"strconv"
	"strings"

	lucene "github.com/grindlemire/go-lucene"
	"github.com/grindlemire/go-lucene/internal/zsimrt"
	"github.com/grindlemire/go-lucene/pkg/driver"
	"github.com/grindlemire/go-lucene/pkg/lucene/expr"
)

// ---- expression construction -------------------------------------------------

// ctors build fresh trees through the public constructors, including shapes the
// parser never produces (DAG sharing, list slices with spare capacity).
var ctors = []func() *expr.Expression{
	func() *expr.Expression { x := expr.Eq("a", 5); return expr.AND(x, x) },
	func() *expr.Expression {
		return expr.OR(expr.Eq("a", "b*"), expr.NOT(expr.Eq("c", "/re.*x/")))
	},
	func() *expr.Expression { return expr.Rang("f", 1, 10, true) },
	func() *expr.Expression { return expr.Rang("f", 1.5, "*", false) },
	func() *expr.Expression { return expr.Rang("f", "abc", "abd", true) },
	func() *expr.Expression {
		s := make([]*expr.Expression, 3, 8)
		s[0], s[1], s[2] = expr.Lit("x"), expr.Lit("y"), expr.Lit(3)
		return expr.IN("a", expr.LIST(s))
	},
	func() *expr.Expression { return expr.MUST(expr.BOOST(expr.Eq("a", "b"), 2.5)) },
	func() *expr.Expression { return expr.FUZZY(expr.Lit("foo"), 2) },
	func() *expr.Expression { return expr.MUSTNOT(expr.GREATER("a", 5)) },
	func() *expr.Expression { return expr.AND(expr.LESSEQ("a", 2.5), expr.GREATEREQ("b", -1)) },
	func() *expr.Expression { return expr.LIKE("a", expr.WILD("b?c*")) },
	func() *expr.Expression { return expr.Lit("hello world") },
	func() *expr.Expression { return expr.WILD("w*ld") },
	func() *expr.Expression { return expr.REGEXP("/ab+/") },
	func() *expr.Expression {
		in := expr.Eq("k", "it's")
		r := expr.Rang("n", 1, 5, false)
		return expr.OR(expr.AND(in, expr.NOT(r)), expr.AND(r, expr.MUST(in)))
	},
	func() *expr.Expression {
		return expr.AND(expr.Eq("a", "qu?ck*"), expr.OR(expr.Eq("b", "x y"), expr.LESS("c", 7)))
	},
	func() *expr.Expression { return expr.Eq(expr.Lit("col name"), expr.Lit(1.25)) },
	func() *expr.Expression { return expr.NOT(expr.Lit("bare")) },
	func() *expr.Expression {
		// a list with repeats, out of order, in a slice with spare capacity
		s := make([]*expr.Expression, 5, 16)
		s[0], s[1], s[2], s[3], s[4] = expr.Lit("z"), expr.Lit("a"), expr.Lit("z"), expr.Lit(2), expr.Lit("a")
		return expr.AND(expr.IN("k", expr.LIST(s)), expr.IN("k", expr.LIST(s)))
	},
	func() *expr.Expression { return expr.Rang("r", 9, 1, true) },
	// hand-made, partly malformed trees (every field is exported, so callers can build them):
	// they drive the validators' and printers' error paths; a panic is a result like any other
	func() *expr.Expression { return &expr.Expression{Op: expr.And} },
	func() *expr.Expression {
		return &expr.Expression{Op: expr.Range, Left: expr.Lit(expr.Column("x")), Right: "not a boundary"}
	},
	func() *expr.Expression { return &expr.Expression{Op: expr.Operator(99), Left: 1} },
	func() *expr.Expression {
		return &expr.Expression{Op: expr.In, Left: expr.Lit(expr.Column("a")),
			Right: &expr.Expression{Op: expr.List, Left: []*expr.Expression{expr.Lit("p"), nil, expr.Lit("q")}}}
	},
	func() *expr.Expression {
		return &expr.Expression{Op: expr.Not, Left: expr.Eq("a", 1), Right: expr.Eq("b", 2)}
	},
	func() *expr.Expression {
		return &expr.Expression{Op: expr.Range, Left: expr.Lit(expr.Column("x")), Right: &expr.RangeBoundary{Min: expr.Lit(1)}}
	},
	func() *expr.Expression { return &expr.Expression{Op: expr.Equals, Left: 5, Right: expr.Lit("v")} },
	// raw (unwrapped) values where the constructors would have put literal expressions
	func() *expr.Expression {
		return &expr.Expression{Op: expr.Range, Left: expr.Lit(expr.Column("x")), Right: &expr.RangeBoundary{Min: 1.0, Max: 5, Inclusive: true}}
	},
	func() *expr.Expression {
		return &expr.Expression{Op: expr.Range, Left: expr.Lit(expr.Column("x")), Right: &expr.RangeBoundary{Min: "a", Max: "*"}}
	},
	func() *expr.Expression {
		return &expr.Expression{Op: expr.Equals, Left: expr.Lit(expr.Column("c")), Right: "raw string"}
	},
	func() *expr.Expression {
		return &expr.Expression{Op: expr.And, Left: expr.Eq("a", 1), Right: &expr.Expression{Op: expr.Greater, Left: expr.Lit(expr.Column("n")), Right: 42}}
	},
	func() *expr.Expression { return &expr.Expression{Op: expr.Or, Left: "x", Right: 5.5} },
	func() *expr.Expression {
		return &expr.Expression{Op: expr.Or, Left: expr.Eq("a", "b"), Right: &expr.Expression{Op: expr.Boost, Left: expr.Lit("c")}}
	},
}

const numCtors = 33

func init() {
	if len(ctors) != numCtors {
		panic("numCtors out of date")
	}
}

// buildExpr builds one expression from its spec. A failure yields a nil
// expression, which is still a legal argument to every operation.
func buildExpr(sp *ExprSpec) (e *expr.Expression) {
	defer func() {
		if r := recover(); r != nil {
			if _, ok := r.(zsimrt.Abort); ok {
				panic(r)
			}
			e = nil
		}
	}()
	switch sp.Kind {
	case "ctor":
		return ctors[sp.Ctor%len(ctors)]()
	case "json":
		var x expr.Expression
		if err := json.Unmarshal([]byte(sp.Query), &x); err != nil {
			return nil
		}
		return &x
	default:
		var err error
		if sp.Field != "" {
			e, err = lucene.Parse(sp.Query, lucene.WithDefaultField(sp.Field))
		} else {
			e, err = lucene.Parse(sp.Query)
		}
		if err != nil {
			return nil
		}
		return e
	}
}

// ---- drivers and the callback fault seam --------------------------------------

const soloSlot = zsimrt.MaxTasks

type faultState struct {
	plan  *Fault
	calls int
	fired bool
	solo  bool
}

var (
	fstate [zsimrt.MaxTasks + 1]faultState

	// sharedDrv is one driver value shared by every task (a server would keep one).
	// It is NOT built at package initialisation: a cold scenario must be the
	// process's first use of the library (see ensureDrivers).
	sharedDrv   driver.PostgresDriver
	sharedDrvOK bool
	// custom is a user-defined driver built the README way: range over the
	// exported driver.Shared, wrap / override entries.
	custom   driver.Base
	customOK bool
	// sparse is a user driver that only knows a few operators: renders of anything else
	// fail in the middle of the tree
	sparse driver.Base
	// sharedMapDrv is what a caller gets who passes the exported table itself:
	// driver.Base{RenderFNs: driver.Shared}. Whatever the library writes into a
	// driver's map would land in the exported package-level table.
	sharedMapDrv driver.Base

	errInjected = errors.New("injected callback error")
)

type exitSentinel struct{}

func slotNow() int {
	if zsimrt.Active() && !zsimrt.SoloOn() {
		return zsimrt.Cur()
	}
	return soloSlot // also in a simulated solo pass (a library with goroutines of its own): one caller, one fault plan
}

// ensureDrivers builds the shared driver values on the main goroutine, outside
// any simulated run. A cold scenario only needs the custom driver (which reads the
// exported driver.Shared table and calls no library function); its renders use a
// fresh NewPostgresDriver() per operation, so the first call of every library
// function happens inside the simulated run.
func ensureDrivers(cold bool) {
	if !customOK {
		custom = buildCustom()
		sharedMapDrv = driver.Base{RenderFNs: driver.Shared}
		sparse = driver.Base{RenderFNs: map[expr.Operator]driver.RenderFN{}}
		for _, op := range []expr.Operator{expr.Literal, expr.And, expr.Or, expr.Equals, expr.Not} {
			sparse.RenderFNs[op] = wrapFN(driver.Shared[op])
		}
		customOK = true
	}
	if !cold && !sharedDrvOK {
		sharedDrv = driver.NewPostgresDriver()
		sharedDrvOK = true
	}
}

func buildCustom() driver.Base {
	m := map[expr.Operator]driver.RenderFN{}
	for op, fn := range driver.Shared {
		m[op] = wrapFN(fn)
	}
	// user overrides
	m[expr.Like] = wrapFN(func(l, r string) (string, error) { return l + " ILIKE " + r, nil })
	m[expr.Fuzzy] = wrapFN(func(l, r string) (string, error) { return "fuzzy(" + l + ")", nil })
	return driver.Base{RenderFNs: m}
}

func wrapFN(fn driver.RenderFN) driver.RenderFN {
	return func(l, r string) (string, error) {
		if !zsimrt.Instrumented {
			return fn(l, r) // degraded mode: tasks run in parallel, no per-task fault state
		}
		st := &fstate[slotNow()]
		st.calls++
		zsimrt.Y(zsimrt.SiteCallback) // a user callback is a place where the caller can be descheduled
		if f := st.plan; f != nil && !st.fired && st.calls == f.At {
			st.fired = true
			switch f.Kind {
			case FError:
				return "", errInjected
			case FPanic:
				panic("injected callback panic")
			case FExit:
				runtime.Goexit()
			case FSlow:
				for i := 0; i < 300; i++ {
					zsimrt.Y(zsimrt.SiteCallback)
				}
			}
		}
		return fn(l, r)
	}
}

// misc exercises the less travelled public entry points on one subject.
func misc(op *Op, e *expr.Expression, canon func(func() string) string) string {
	var sb strings.Builder
	part := func(name string, f func() string) {
		sb.WriteString(name)
		sb.WriteByte('=')
		sb.WriteString(strconv.Quote(guarded(f)))
		sb.WriteByte(';')
	}
	part("plusv", func() string { return fmt.Sprintf("%+v", e) })
	part("q", func() string { return fmt.Sprintf("%q", e) })
	part("print", func() string { return fmt.Sprint(e, " ", e) })
	if e != nil {
		part("op", func() string { return fmt.Sprintf("%d|%v|%s|%q", e.Op, e.Op, e.Op, e.Op) })
		part("leftv", func() string { return fmt.Sprintf("%v|%+v|%#v|%q", e.Left, e.Left, e.Left, e.Left) })
		part("valleft", func() string { return errText(expr.Validate(e.Left)) })
		part("valright", func() string { return errText(expr.Validate(e.Right)) })
		part("valcopy", func() string { cp := *e; return errText(expr.Validate(&cp)) })
		part("isexpr", func() string { return strconv.FormatBool(expr.IsExpr(e.Left)) + strconv.FormatBool(expr.IsExpr(e)) })
	}
	part("opstr", func() string {
		return expr.Operator(99).String() + "|" + expr.Operator(-1).String() + "|" + expr.Undefined.String() + "|" + expr.List.String()
	})
	part("valother", func() string {
		return errText(expr.Validate(42)) + errText(expr.Validate("x")) + errText(expr.Validate(nil)) + errText(expr.Validate((*expr.Expression)(nil)))
	})
	part("column", func() string { c := expr.Column("my col"); return fmt.Sprintf("%v|%s|%#v|%q", c, c, c, c) })
	// decoding into a value that already holds a tree (the target is private to this operation)
	part("unmarshal-into", func() string {
		var target expr.Expression
		if e != nil {
			target = *cloneExpr(e)
		}
		err := json.Unmarshal(docBytes(op.Query), &target)
		if err != nil {
			return errText(err)
		}
		var s string
		canon(func() string { s = canonFull(&target); return "" })
		return s
	})
	return sb.String()
}

// editPrint: the tree is private to this operation, so the caller may legally edit it
// between two uses. Whatever the library remembered about the tree from the first
// use must not leak into the second: printing/rendering the edited tree has to give
// what a freshly built structural clone of it gives.
func editPrint(e *expr.Expression, canon func(func() string) string) string {
	if e == nil {
		return "editprint:nil"
	}
	d := driver.NewPostgresDriver()
	first := func(x *expr.Expression) string {
		s1 := guarded(func() string { return x.String() })
		g1 := guarded(func() string { return fmt.Sprintf("%#v", x) })
		r1 := guarded(func() string { s, err := d.Render(x); return s + "|" + errText(err) })
		p1 := guarded(func() string { s, ps, err := d.RenderParam(x); return s + "|" + canonParams(ps) + "|" + errText(err) })
		v1 := guarded(func() string { return errText(expr.Validate(x)) })
		return s1 + "\x00" + g1 + "\x00" + r1 + "\x00" + p1 + "\x00" + v1
	}
	before := first(e)
	edited := editLeaf(e, 0)
	after := first(e)
	var fresh string
	canon(func() string { fresh = first(cloneExpr(e)); return "" })
	if after != fresh {
		return "editprint:STALE after=" + strconv.Quote(after) + " fresh-clone=" + strconv.Quote(fresh)
	}
	// the same for a driver the caller built and owns: render, legally replace one of its
	// render functions, render again; must equal a render through a brand-new driver value
	// holding a copy of the edited map
	own := driver.Base{RenderFNs: map[expr.Operator]driver.RenderFN{}}
	for op, fn := range driver.Shared {
		own.RenderFNs[op] = fn
	}
	rend := func(b driver.Base, x *expr.Expression) string {
		return guarded(func() string {
			s, err := b.Render(x)
			ps, pp, perr := b.RenderParam(x)
			return s + "|" + errText(err) + "|" + ps + "|" + canonParams(pp) + "|" + errText(perr)
		})
	}
	_ = rend(own, e)
	own.RenderFNs[expr.And] = func(l, r string) (string, error) { return l + " && " + r, nil }
	own.RenderFNs[expr.Equals] = func(l, r string) (string, error) { return l + " == " + r, nil }
	delete(own.RenderFNs, expr.Not)
	afterD := rend(own, e)
	var freshD string
	canon(func() string {
		cp := driver.Base{RenderFNs: map[expr.Operator]driver.RenderFN{}}
		for op, fn := range own.RenderFNs {
			cp.RenderFNs[op] = fn
		}
		freshD = rend(cp, cloneExpr(e))
		return ""
	})
	if afterD != freshD {
		return "editprint:STALE (driver edited) after=" + strconv.Quote(afterD) + " fresh-driver=" + strconv.Quote(freshD)
	}
	return "editprint:ok edited=" + strconv.FormatBool(edited) + " " + strconv.Quote(before) + " -> " + strconv.Quote(after)
}

// editLeaf changes the first string / int leaf it finds (depth first): a legal edit of exported fields.
func editLeaf(e *expr.Expression, depth int) bool {
	if e == nil || depth > 50 {
		return false
	}
	switch v := e.Left.(type) {
	case string:
		e.Left = v + "_e"
		return true
	case int:
		e.Left = v + 1
		return true
	case *expr.Expression:
		if editLeaf(v, depth+1) {
			return true
		}
	case []*expr.Expression:
		for _, x := range v {
			if editLeaf(x, depth+1) {
				return true
			}
		}
	}
	switch v := e.Right.(type) {
	case *expr.Expression:
		return editLeaf(v, depth+1)
	case *expr.RangeBoundary:
		if v != nil {
			if m, ok := v.Min.(*expr.Expression); ok && editLeaf(m, depth+1) {
				return true
			}
			if m, ok := v.Max.(*expr.Expression); ok && editLeaf(m, depth+1) {
				return true
			}
		}
	}
	return false
}

// cloneExpr builds a structural clone: new nodes, same exported values, the two
// operator-specific private numbers copied through their offsets, nothing else.
func cloneExpr(e *expr.Expression) *expr.Expression {
	if e == nil {
		return nil
	}
	n := new(expr.Expression)
	n.Op = e.Op
	n.Left = cloneAny(e.Left)
	n.Right = cloneAny(e.Right)
	setPriv(n, privBoost(e), privFuzzy(e))
	return n
}

func cloneAny(v any) any {
	switch x := v.(type) {
	case *expr.Expression:
		if x == nil {
			return x
		}
		return cloneExpr(x)
	case []*expr.Expression:
		if x == nil {
			return x
		}
		out := make([]*expr.Expression, len(x))
		for i, el := range x {
			out[i] = cloneExpr(el)
		}
		return out
	case *expr.RangeBoundary:
		if x == nil {
			return x
		}
		return &expr.RangeBoundary{Min: cloneAny(x.Min), Max: cloneAny(x.Max), Inclusive: x.Inclusive}
	}
	return v
}

// dagProbe counts Parse results in which some node is reachable along two paths.
var dagProbe [zsimrt.MaxTasks + 1]uint64

// sharesNodes reports whether an *Expression node is reachable twice in the tree.
func sharesNodes(e *expr.Expression) bool {
	seen := map[*expr.Expression]bool{}
	var walk func(v any, depth int) bool
	walk = func(v any, depth int) bool {
		if depth > canonMaxDepth {
			return false
		}
		switch x := v.(type) {
		case *expr.Expression:
			if x == nil {
				return false
			}
			if seen[x] {
				return true
			}
			seen[x] = true
			return walk(x.Left, depth+1) || walk(x.Right, depth+1)
		case []*expr.Expression:
			for _, el := range x {
				if walk(el, depth+1) {
					return true
				}
			}
		case *expr.RangeBoundary:
			if x != nil {
				return walk(x.Min, depth+1) || walk(x.Max, depth+1)
			}
		}
		return false
	}
	return walk(e, 0)
}

// docBytes returns ONE byte slice per distinct JSON document of the current scenario,
// shared by every task that decodes it (callers do keep request bodies around and
// decode them from several goroutines). The library must only read it; runScenario
// checks afterwards that the bytes are what they were.
var docPool map[string][]byte

func docBytes(doc string) []byte {
	if b, ok := docPool[doc]; ok {
		return b
	}
	return []byte(doc) // not registered (replayed / edited scenario): private copy
}

// ---- one operation ------------------------------------------------------------

// doCall performs the library call of op on subject e and returns the canonical
// result. canon wraps result canonicalisation (Quiet inside a simulated run).
//
// The second result, when non-nil, recomputes the canonical form from the RAW
// values the call returned (tree, parameter slice, byte slice), which the caller
// keeps: oracle O6 calls it after everything else has run — a returned value
// that later changes was aliasing state the library went on using.
func doCall(op *Op, e *expr.Expression, canon func(func() string) string) (string, func() string) {
	if op.Copy && e != nil {
		cp := *e // a caller may copy the struct: the copy shares its children with the original
		e = &cp
	}
	switch op.Kind {
	case KEditPrint:
		return editPrint(e, canon), nil
	case KMisc:
		return misc(op, e, canon), nil
	case KParse:
		var x *expr.Expression
		var err error
		if oe := optsFor(op); oe != nil {
			x, err = oe.parse(op.Query)
		} else if op.Field != "" {
			x, err = lucene.Parse(op.Query, lucene.WithDefaultField(op.Field))
		} else {
			x, err = lucene.Parse(op.Query)
		}
		f := func() string {
			if err != nil {
				if x != nil {
					return errText(err) + "|nonnil:" + canonFull(x)
				}
				return errText(err)
			}
			return canonFull(x)
		}
		if x != nil && sharesNodes(x) {
			dagProbe[slotNow()]++ // reported as a probe, not judged: C14 does not say that Parse returns a tree
		}
		return canon(f), f
	case KToPG:
		var s string
		var err error
		if oe := optsFor(op); oe != nil {
			s, err = oe.topg(op.Query)
		} else if op.Field != "" {
			s, err = lucene.ToPostgres(op.Query, lucene.WithDefaultField(op.Field))
		} else {
			s, err = lucene.ToPostgres(op.Query)
		}
		// strings are kept and re-read by O6 too: a string built over a reused buffer
		// (unsafe.String) or an error whose text is rendered lazily can change later
		f := func() string { return strconv.Quote(s) + "|" + errText(err) }
		return f(), f
	case KToParam:
		var s string
		var ps []any
		var err error
		if oe := optsFor(op); oe != nil {
			s, ps, err = oe.toparam(op.Query)
		} else if op.Field != "" {
			s, ps, err = lucene.ToParameterizedPostgres(op.Query, lucene.WithDefaultField(op.Field))
		} else {
			s, ps, err = lucene.ToParameterizedPostgres(op.Query)
		}
		f := func() string { return strconv.Quote(s) + "|" + canonParams(ps) + "|" + errText(err) }
		return canon(f), f
	case KRender:
		if op.MapDrv {
			s, err := sharedMapDrv.Render(e)
			f := func() string { return strconv.Quote(s) + "|" + errText(err) }
			return f(), f
		}
		d := sharedDrv
		if op.Fresh || !sharedDrvOK {
			d = driver.NewPostgresDriver()
		}
		s, err := d.Render(e)
		f := func() string { return strconv.Quote(s) + "|" + errText(err) }
		return f(), f
	case KRenderParam:
		if op.MapDrv {
			s, ps, err := sharedMapDrv.RenderParam(e)
			f := func() string { return strconv.Quote(s) + "|" + canonParams(ps) + "|" + errText(err) }
			return canon(f), f
		}
		d := sharedDrv
		if op.Fresh || !sharedDrvOK {
			d = driver.NewPostgresDriver()
		}
		s, ps, err := d.RenderParam(e)
		f := func() string { return strconv.Quote(s) + "|" + canonParams(ps) + "|" + errText(err) }
		return canon(f), f
	case KCRender:
		if op.Sparse {
			s, err := sparse.Render(e)
			f := func() string { return strconv.Quote(s) + "|" + errText(err) }
			return f(), f
		}
		s, err := custom.Render(e)
		f := func() string { return strconv.Quote(s) + "|" + errText(err) }
		return f(), f
	case KCRenderParam:
		if op.Sparse {
			s, ps, err := sparse.RenderParam(e)
			f := func() string { return strconv.Quote(s) + "|" + canonParams(ps) + "|" + errText(err) }
			return canon(f), f
		}
		s, ps, err := custom.RenderParam(e)
		f := func() string { return strconv.Quote(s) + "|" + canonParams(ps) + "|" + errText(err) }
		return canon(f), f
	case KString:
		str := e.String()
		f := func() string { return strconv.Quote(str) }
		return f(), f
	case KGoString:
		str := fmt.Sprintf("%#v", e)
		f := func() string { return strconv.Quote(str) }
		return f(), f
	case KSprint:
		str := fmt.Sprintf("%s|%v", e, e)
		f := func() string { return strconv.Quote(str) }
		return f(), f
	case KMarshal:
		b, err := json.Marshal(e)
		f := func() string { return strconv.Quote(string(b)) + "|" + errText(err) }
		return f(), f
	case KMarshalDir:
		b, err := e.MarshalJSON() // a public method: callers may call it and keep the bytes
		f := func() string { return strconv.Quote(string(b)) + "|" + errText(err) }
		return f(), f
	case KValidate:
		var in any = e
		if e == nil {
			in = nil
		}
		verr := expr.Validate(in)
		f := func() string { return errText(verr) }
		return f(), f
	case KUnmarshal:
		x := new(expr.Expression)
		err := json.Unmarshal(docBytes(op.Query), x)
		f := func() string {
			if err != nil {
				return errText(err)
			}
			return canonFull(x)
		}
		return canon(f), f
	case KNewDriver:
		d := driver.NewPostgresDriver()
		// and the README pattern: a caller ranging over the exported table itself
		n := 0
		for range driver.Shared {
			n++
		}
		keys := make([]int, 0, len(d.RenderFNs))
		for k := range d.RenderFNs {
			keys = append(keys, int(k))
		}
		sort.Ints(keys)
		// ... and customising the driver just obtained (the README's idea: take a driver,
		// override a render function). The driver value is private to this operation, so
		// the override must affect nobody else.
		d.RenderFNs[expr.Equals] = func(l, r string) (string, error) { return l + " == " + r, nil }
		d.RenderFNs[expr.Fuzzy] = func(l, r string) (string, error) { return "fuzzy(" + l + ")", nil }
		cs, cerr := d.Render(expr.AND(expr.Eq("a", "b"), expr.FUZZY(expr.Lit("c"), 2)))
		var sb strings.Builder
		fmt.Fprintf(&sb, "drv:%d shared:%d custom:%q|%s", len(keys), n, cs, errText(cerr))
		for _, k := range keys {
			sb.WriteByte(' ')
			sb.WriteString(strconv.Itoa(k))
		}
		return sb.String(), nil
	}
	return "unknown-op", nil
}
