package main

import (
	_ "embed"
	"strconv"
	"strings"

	"github.com/grindlemire/go-lucene/internal/zsimrt"
)

//go:embed queries.txt
var queriesTxt string

//go:embed json.txt
var jsonTxt string

// corpus holds the committed query and JSON corpora. Tags in queries.txt are a
// workload bias only (R: rendered when the corpus was built, P: parsed but did
// not render, F: did not parse, X: panicked); no oracle depends on them.
type corpus struct {
	all    []string
	render []string
	richQ  []string // renderable queries with wildcards, regexps, ranges, lists, boosts: the shapes renderers treat specially
	docs   []string
	fams   [][]string // renderable queries grouped by the construct they exercise (wildcards, regexps, ranges, lists, ...)
	bigQ   []string   // long queries (lists, chains, nesting past typical scratch capacities)
	bigDoc []string   // long JSON documents
}

func loadCorpus() *corpus {
	c := &corpus{}
	for _, ln := range strings.Split(queriesTxt, "\n") {
		if len(ln) < 3 || ln[0] == '#' {
			continue
		}
		tag := ln[0]
		q, err := strconv.Unquote(strings.TrimSpace(ln[1:]))
		if err != nil {
			continue
		}
		c.all = append(c.all, q)
		if len(q) > 120 {
			c.bigQ = append(c.bigQ, q)
		}
		if tag == 'R' {
			c.render = append(c.render, q)
			if strings.ContainsAny(q, "*?/[{(~^") {
				c.richQ = append(c.richQ, q)
			}
		}
	}
	for _, ln := range strings.Split(jsonTxt, "\n") {
		ln = strings.TrimSpace(ln)
		if ln == "" || ln[0] == '#' {
			continue
		}
		c.docs = append(c.docs, ln)
		if len(ln) > 400 {
			c.bigDoc = append(c.bigDoc, ln)
		}
	}
	// feature families: several DIFFERENT inputs that all go through the same
	// operator-specific code path (a per-operator memo or scratch is only visible then)
	markers := []func(string) bool{
		func(q string) bool { return strings.ContainsAny(q, "*?") && !strings.ContainsAny(q, "[{/") },
		func(q string) bool { return strings.Contains(q, "/") },
		func(q string) bool { return strings.ContainsAny(q, "[{") },
		func(q string) bool { return strings.Contains(q, ":(") },
		func(q string) bool { return strings.Contains(q, ":>") || strings.Contains(q, ":<") },
		func(q string) bool { return strings.ContainsAny(q, "~^") },
		func(q string) bool { return strings.ContainsAny(q, "\"'") },
		func(q string) bool { return !strings.Contains(q, ":") },
	}
	for _, m := range markers {
		var fam []string
		for _, q := range c.render {
			if len(q) <= 80 && m(q) {
				fam = append(fam, q)
			}
		}
		if len(fam) >= 3 {
			c.fams = append(c.fams, fam)
		}
	}
	if len(c.all) == 0 || len(c.render) == 0 || len(c.docs) == 0 {
		panic("empty corpus")
	}
	return c
}

func (c *corpus) query(r *zsimrt.Rand) string {
	return strings.ToValidUTF8(c.query0(r), "?") // see gFaulty: inputs must survive a JSON round trip
}

func (c *corpus) query0(r *zsimrt.Rand) string {
	if len(c.bigQ) > 0 && r.Intn(50) == 0 {
		return c.bigQ[r.Intn(len(c.bigQ))]
	}
	if r.Intn(10) == 0 {
		return mutateQuery(r, c.all[r.Intn(len(c.all))], c)
	}
	if r.Intn(10) < 3 {
		return genQuery(r, 0)
	}
	return c.all[r.Intn(len(c.all))]
}

func (c *corpus) renderable(r *zsimrt.Rand) string {
	if r.Intn(10) < 2 {
		return strings.ToValidUTF8(genQuery(r, 0), "?")
	}
	return c.render[r.Intn(len(c.render))]
}

func (c *corpus) rich(r *zsimrt.Rand) string {
	if len(c.richQ) == 0 {
		return c.renderable(r)
	}
	return c.richQ[r.Intn(len(c.richQ))]
}

// family returns one feature family (nil if none could be built).
func (c *corpus) family(r *zsimrt.Rand) []string {
	if len(c.fams) == 0 {
		return nil
	}
	return c.fams[r.Intn(len(c.fams))]
}

func (c *corpus) jsonDoc(r *zsimrt.Rand) string {
	if len(c.bigDoc) > 0 && r.Intn(10) == 0 {
		return c.bigDoc[r.Intn(len(c.bigDoc))]
	}
	return c.docs[r.Intn(len(c.docs))]
}

var mutTokens = []string{"AND", "OR", "NOT", "TO", "(", ")", "[", "]", "{", "}", ":", "+", "-", "~", "^", "*", "?", "\"", "'", "/", "=", ">", "<", "5", "x"}

// mutateQuery applies 1-3 token-level edits to a corpus query: duplicate, delete, swap or
// insert a token, or splice in a piece of another query. Most results are odd but lexable;
// many do not parse — a rejected input is a result like any other.
func mutateQuery(r *zsimrt.Rand, q string, c *corpus) string {
	toks := strings.Fields(q)
	if len(toks) == 0 {
		return q
	}
	for n := 1 + r.Intn(3); n > 0; n-- {
		i := r.Intn(len(toks))
		switch r.Intn(6) {
		case 0: // duplicate
			toks = append(toks[:i+1], toks[i:]...)
		case 1: // delete
			if len(toks) > 1 {
				toks = append(toks[:i], toks[i+1:]...)
			}
		case 2: // swap with neighbour
			if i+1 < len(toks) {
				toks[i], toks[i+1] = toks[i+1], toks[i]
			}
		case 3: // insert an operator / bracket / stray character
			t := mutTokens[r.Intn(len(mutTokens))]
			toks = append(toks[:i], append([]string{t}, toks[i:]...)...)
		case 4: // glue a stray character onto a token
			toks[i] = toks[i] + mutTokens[r.Intn(len(mutTokens))]
		default: // splice in the tail of another query
			o := strings.Fields(c.all[r.Intn(len(c.all))])
			if len(o) > 0 {
				k := r.Intn(len(o))
				toks = append(toks[:i], append(append([]string{}, o[k:]...), toks[i:]...)...)
			}
		}
		if len(toks) > 60 {
			toks = toks[:60]
		}
	}
	return strings.Join(toks, " ")
}

var (
	gFields = []string{"a", "b", "title", "user_id", "ts", `my\ field`, "x.y", "k-1", "a", "b", "*", "f*", "7", `"q f"`}
	gWords  = []string{"foo", "bar", "b*", "qu?ck", "*", "x", "hello", `esc\:aped`, "café", "TO", "and"}
	gNums   = []string{"0", "1", "42", "-7", "3.14", "-0.5", "1e3", "007"}
	gQuoted = []string{`"hello world"`, `"it's"`, `'single quoted'`, `"a AND b"`, `""`, `"wild * card"`}
	gRegexp = []string{`/fo+/`, `/a.*b/`, `/[a-z]+\/x/`, `/x y/`}
)

func pick(r *zsimrt.Rand, xs []string) string { return xs[r.Intn(len(xs))] }

func genValue(r *zsimrt.Rand) string {
	switch r.Intn(10) {
	case 0, 1, 2, 3:
		return pick(r, gWords)
	case 4, 5:
		return pick(r, gNums)
	case 6, 7:
		return pick(r, gQuoted)
	case 8:
		return pick(r, gRegexp)
	}
	// value lists: 2-6 elements drawn with replacement from a tiny set, so that
	// duplicates and unsorted lists are the norm rather than the exception
	set := []string{pick(r, gWords), pick(r, gWords), pick(r, gNums)}
	n := 2 + r.Intn(5)
	if r.Intn(12) == 0 {
		n = 15 + r.Intn(30) // past the capacities scratch buffers tend to have
		set = append(set, pick(r, gWords), pick(r, gNums), pick(r, gQuoted))
	}
	out := "(" + set[r.Intn(len(set))]
	for i := 1; i < n; i++ {
		out += " OR " + set[r.Intn(len(set))]
	}
	return out + ")"
}

func genBound(r *zsimrt.Rand) string {
	switch r.Intn(4) {
	case 0:
		return "*"
	case 1:
		return pick(r, gWords)
	}
	return pick(r, gNums)
}

func genTerm(r *zsimrt.Rand) string {
	f := pick(r, gFields)
	if r.Intn(9) == 0 {
		f = oddColumn(r)
	}
	switch r.Intn(12) {
	case 0, 1, 2, 3:
		return f + ":" + genValue(r)
	case 4:
		return genValue(r) // bare term
	case 5:
		open, cl := "[", "]"
		if r.Bool() {
			open, cl = "{", "}"
		}
		return f + ":" + open + genBound(r) + " TO " + genBound(r) + cl
	case 6:
		return f + ":" + pick(r, []string{">", ">=", "<", "<="}) + pick(r, gNums)
	case 7:
		return f + ":" + genValue(r) + "~" + pick(r, []string{"", "2", "1", "0", "-1", "0.5", "3.5", "2.5", "10"})
	case 8:
		return f + ":" + genValue(r) + "^" + pick(r, []string{"", "2", "0.5", "3.5", "2.5", "0", "-1", "1", "10"})
	case 9:
		return pick(r, []string{"+", "-"}) + f + ":" + genValue(r)
	case 10:
		return f + "=" + genValue(r)
	}
	return f + ": " + genValue(r)
}

// Pieces that lex and parse but are rejected later — by the validator or by a renderer — each
// with a message of its own (as built after seeded changes x4 and x5).
var gFaulty = []string{
	`(a:b OR c:d):e`,     // an expression where a field name is expected: equals
	`(f:g OR h:i):>5`,    // ... compare
	`(a:b):[1 TO 5]`,     // ... range
	`a:b:c`,              // a chain of colons
	`a:b~2`, `t:(x y)~3`, // fuzzy: no renderer
	`a:b^2`, `(a:b c:d)^3`, // boost: no renderer
	`"":c`,                  // empty column name
	`a:"nul` + "\x00" + `"`, // a literal no renderer accepts (inputs stay valid UTF-8: scenarios, probes and replay files travel as JSON, which cannot carry anything else)
	`*:x`, `7:[1 TO 2]`,
}

// oddColumn returns a column name that is legal to the lexer and odd to a renderer, FRESH
// nearly every time (the suffix): whatever the library remembers about column names, it sees
// this one for the first time — possibly from several tasks at once (hot query sets).
func oddColumn(r *zsimrt.Rand) string {
	k := itoa(r.Intn(100000))
	switch r.Intn(6) {
	case 0, 5:
		return `c` + k + `\"q` // an escaped double quote inside the name: renderers reject it
	case 1:
		return `"col ` + k + `"` // quoted, with a space
	case 2:
		return `C` + k + `.Sub-x` // upper case, dot, dash
	case 3:
		return `c` + k + `\ sp` // escaped space
	}
	return `c` + k
}

// genMultiFault builds a query with TWO OR THREE independent faults, separated by valid
// clauses: which error is reported must not depend on who finished first.
func genMultiFault(r *zsimrt.Rand) string {
	n := 2 + r.Intn(2)
	var parts []string
	for i := 0; i < n; i++ {
		if i > 0 {
			for f := r.Intn(4); f > 0; f-- { // valid filler between the faults
				parts = append(parts, genTerm(r))
			}
		}
		p := pick(r, gFaulty)
		if r.Intn(4) == 0 {
			p = oddColumn(r) + ":" + pick(r, gWords)
		}
		parts = append(parts, p)
	}
	op := pick(r, []string{" AND ", " OR ", " AND ", " "})
	q := strings.Join(parts, op)
	if r.Intn(3) == 0 && len(parts) >= 3 {
		// balanced instead of a chain: (p0 op p1) op2 (p2 ...)
		m := len(parts) / 2
		q = "(" + strings.Join(parts[:m], op) + ")" + pick(r, []string{" AND ", " OR "}) + "(" + strings.Join(parts[m:], op) + ")"
	}
	return q
}

func genQuery(r *zsimrt.Rand, depth int) string {
	if depth == 0 && r.Intn(10) == 0 {
		return genMultiFault(r)
	}
	if depth >= 3 || r.Intn(3) == 0 {
		return genTerm(r)
	}
	switch r.Intn(9) {
	case 0, 1:
		return genQuery(r, depth+1) + pick(r, []string{" AND ", " and ", "  AND\t"}) + genQuery(r, depth+1)
	case 2, 3:
		return genQuery(r, depth+1) + pick(r, []string{" OR ", " or "}) + genQuery(r, depth+1)
	case 4:
		return "NOT " + genQuery(r, depth+1)
	case 5:
		return "(" + genQuery(r, depth+1) + ")"
	case 6:
		return genQuery(r, depth+1) + " " + genQuery(r, depth+1) // juxtaposition
	case 7:
		return "(" + genQuery(r, depth+1) + ")" + pick(r, []string{"^2", "~", "^", "~2", "^0.5", "~0.5", "^0", "~0"})
	}
	// occasionally malformed
	return genQuery(r, depth+1) + pick(r, []string{" AND", " OR (", ")", ":[1 TO", " \"unterminated"})
}
