package main

import (
	"strconv"
	"strings"

	"github.com/grindlemire/go-lucene/internal/zsimrt"
)

// Operation kinds.
const (
	KParse        = "parse"         // lucene.Parse(q[, WithDefaultField])
	KToPG         = "topg"          // lucene.ToPostgres(q...)              (package-level driver)
	KToParam      = "toparam"       // lucene.ToParameterizedPostgres(q...) (package-level driver)
	KRender       = "render"        // d.Render(e)
	KRenderParam  = "renderparam"   // d.RenderParam(e)
	KCRender      = "crender"       // custom.Render(e)      (user RenderFN callbacks, fault seam)
	KCRenderParam = "crenderparam"  // custom.RenderParam(e)
	KString       = "string"        // e.String()
	KGoString     = "gostring"      // fmt.Sprintf("%#v", e)
	KSprint       = "sprint"        // fmt.Sprintf("%s|%v", e, e)
	KMarshal      = "marshal"       // json.Marshal(e)
	KMarshalDir   = "marshaldirect" // e.MarshalJSON() called directly; the caller keeps the returned bytes
	KValidate     = "validate"      // expr.Validate(e)
	KUnmarshal    = "unmarshal"     // json.Unmarshal(doc, &fresh)
	KNewDriver    = "newdriver"     // driver.NewPostgresDriver()  (reads driver.Shared)
	KMisc         = "misc"          // the less travelled entry points: other fmt verbs, Validate on sub-trees and non-expressions, Operator.String out of range, Unmarshal into a value that already holds a tree
	KEditPrint    = "editprint"     // private tree: print/render, legally edit a leaf, print/render again; must equal a fresh clone's output
	KSpawn        = "spawn"         // start a late task
	KPublish      = "publish"       // build a shared expression mid-run and publish it (atomic.Pointer)
)

// Callback fault kinds (injected through the Base.RenderFNs seam).
const (
	FError = "error"
	FPanic = "panic"
	FExit  = "exit"
	FSlow  = "slow"
)

// ExprSpec says how to build one expression.
type ExprSpec struct {
	Kind  string `json:"kind"`            // "parse" | "json" | "ctor"
	Query string `json:"query,omitempty"` // parse: the query; json: the document
	Field string `json:"field,omitempty"` // parse: default field ("" = none)
	Ctor  int    `json:"ctor,omitempty"`
	Late  bool   `json:"late,omitempty"` // published mid-run by a KPublish operation
}

// Fault is a callback fault plan for one operation.
type Fault struct {
	Kind string `json:"kind"`
	At   int    `json:"at"` // fires at the At-th callback invocation within the operation (1-based)
}

// Op is one caller operation.
type Op struct {
	Kind   string    `json:"kind"`
	Query  string    `json:"query,omitempty"`
	Field  string    `json:"field,omitempty"`
	Shared int       `json:"shared"`           // index into Scenario.Shared, -1: private expression built from Priv
	Priv   *ExprSpec `json:"priv,omitempty"`   // private subject
	Fresh  bool      `json:"fresh,omitempty"`  // render with a fresh NewPostgresDriver() instead of the shared driver value
	MapDrv bool      `json:"mapdrv,omitempty"` // render with driver.Base{RenderFNs: driver.Shared} (the exported table itself)
	Sparse bool      `json:"sparse,omitempty"` // custom render with a driver that knows only a few operators (error paths in mid-tree)
	Copy   bool      `json:"copy,omitempty"`   // operate on a shallow VALUE copy of the subject (children still shared)
	Fault  *Fault    `json:"fault,omitempty"`  // callback fault (custom driver operations only)
	Target int       `json:"target,omitempty"` // spawn: task to start
	Opts   int       `json:"opts,omitempty"`   // parse/topg/toparam: 0 options written out at the call; 1, 2: the call passes a caller-owned option slice (opts...), layout 1 or 2 (opts.go)
}

// SchedSpec is the scheduling and fault configuration of one run.
type SchedSpec struct {
	Policy      string `json:"policy"`
	MeanGap     int    `json:"mean_gap,omitempty"`
	Quantum     int    `json:"quantum,omitempty"`
	PCTDepth    int    `json:"pct_depth,omitempty"`
	SingleA     int    `json:"single_a,omitempty"`
	SinglePerm  int    `json:"single_permil,omitempty"` // where in A's solo step count the preemption lands (‰)
	GCPermil    int    `json:"gc_permil,omitempty"`
	StallPermil int    `json:"stall_permil,omitempty"`
	StallMean   int    `json:"stall_mean,omitempty"`
	SyncQ       int    `json:"sync_q,omitempty"`
	ClockPermil int    `json:"clock_permil,omitempty"` // clock-jump faults (only drawn when the library reads the clock)
}

// Scenario is one fully explicit simulated run (everything but the schedule,
// which is either drawn from the PRNG after the scenario or given as decisions).
type Scenario struct {
	Run       uint64     `json:"run"`
	Seed      uint64     `json:"seed"`
	Cold      bool       `json:"cold,omitempty"`      // simulate before any reference pass (first use of the library in the process when Run is the process's first)
	SimFirst  bool       `json:"sim_first,omitempty"` // like Cold for the ORDER of the passes only: the simulated run comes before the solo passes, so that whatever the library remembers per input (a memo keyed by a query, a column name, a node) is first filled in concurrently
	Shared    []ExprSpec `json:"shared"`
	Tasks     [][]Op     `json:"tasks"`
	Late      []bool     `json:"late,omitempty"` // Late[t]: task t is started by a KSpawn operation
	Sched     SchedSpec  `json:"sched"`
	O2Every   uint64     `json:"o2_every,omitempty"`   // per-step argument check cadence (0: operation boundaries only)
	RefOrder  []int      `json:"ref_order"`            // order of the second solo pass (flattened op numbers)
	ClockGaps [2]int64   `json:"clock_gaps,omitempty"` // simulated time that passes before the simulated run and before the second solo pass (ns)
	MapSeed   uint64     `json:"map_seed"`             // order in which library `range <map>` loops iterate (the simulator owns it)
	Contend   bool       `json:"contend,omitempty"`
	Shape     string     `json:"shape,omitempty"` // workload shape this scenario was drawn with (informational)
	Giant     bool       `json:"giant,omitempty"` // giant inputs: larger step caps apply

	hot []hotQuery // generation-time only
}

type hotQuery struct{ q, field string }

// giantEvery > 0: every giantEvery-th run index is a giant-input scenario.
var giantEvery uint64

// genGiant draws a scenario whose inputs are far larger than anything a corpus
// holds: chains of hundreds of terms, lists of hundreds of values, hundreds of
// nesting levels — past the limits (256, 512, 1024) that depth guards, scratch
// stacks and counters tend to use — worked on by 2–3 tasks at the same time.
func genGiant(r *zsimrt.Rand, sc *Scenario) {
	sc.Shape = "giant-input"
	sc.Giant = true
	n := []int{300, 300, 600, 600, 600, 1100}[r.Intn(6)]
	var sb strings.Builder
	switch r.Intn(7) {
	case 6:
		// a BALANCED tree (n leaves, AND and OR alternating by level, the odd leaf a wildcard, a
		// range or a phrase): both operands of the root and of the nodes below it are big boolean
		// sub-trees — the shape a "render the two sides in parallel" change looks for
		leaf := 0
		var build func(lo, hi, depth int)
		build = func(lo, hi, depth int) {
			if hi-lo <= 1 {
				leaf++
				switch leaf % 11 {
				case 3:
					sb.WriteString("f" + itoa(leaf%7) + ":v" + itoa(leaf) + "*")
				case 7:
					sb.WriteString("f" + itoa(leaf%7) + ":[" + itoa(leaf) + " TO " + itoa(leaf+9) + "]")
				default:
					sb.WriteString("f" + itoa(leaf%7) + ":" + itoa(leaf))
				}
				return
			}
			mid := (lo + hi) / 2
			sb.WriteString("(")
			build(lo, mid, depth+1)
			sb.WriteString([]string{" AND ", " OR "}[depth%2])
			build(mid, hi, depth+1)
			sb.WriteString(")")
		}
		build(0, n, 0)
	case 0:
		for i := 0; i < n; i++ {
			if i > 0 {
				sb.WriteString(" AND ")
			}
			sb.WriteString("f" + itoa(i%7) + ":" + itoa(i))
		}
	case 1:
		for i := 0; i < n; i++ {
			if i > 0 {
				sb.WriteString(" OR ")
			}
			sb.WriteString("f" + itoa(i%7) + ":v" + itoa(i))
		}
	case 2:
		for i := 0; i < n; i++ {
			sb.WriteString("t" + itoa(i) + " ")
		}
	case 3:
		sb.WriteString("a:(")
		for i := 0; i < 2*n; i++ {
			if i > 0 {
				sb.WriteString(" OR ")
			}
			sb.WriteString("v" + itoa(i%(n+3)))
		}
		sb.WriteString(")")
	case 4:
		d := n / 4
		sb.WriteString(strings.Repeat("(", d) + "a:b AND c:[1 TO 5]" + strings.Repeat(")", d))
	default:
		d := n / 6
		sb.WriteString(strings.Repeat("NOT ", d) + "a:b* OR " + strings.Repeat("+", 1) + "c:d")
	}
	q := sb.String()
	field := fieldChoices[r.Intn(len(fieldChoices))]
	sc.Shared = []ExprSpec{{Kind: "parse", Query: q, Field: field}}
	nTasks := 2 + r.Intn(2)
	sc.Late = make([]bool, nTasks)
	kinds := []string{KParse, KParse, KToPG, KToParam, KValidate, KValidate, KRenderParam, KRender, KMarshal, KString, KString, KGoString, KSprint}
	// half of the giant runs are symmetric: every task makes the SAME kind of call, so that
	// all of them are deep inside the same recursive function at the same time
	symKind := ""
	if r.Intn(2) == 0 {
		symKind = kinds[r.Intn(len(kinds))]
	}
	total := 0
	for t := 0; t < nTasks; t++ {
		var ops []Op
		for i := 0; i < 1+r.Intn(2); i++ {
			op := Op{Kind: kinds[r.Intn(len(kinds))], Shared: -1}
			if symKind != "" {
				op.Kind = symKind
			}
			switch op.Kind {
			case KParse, KToPG, KToParam:
				op.Query, op.Field = q, field
			default:
				op.Shared = 0
			}
			ops = append(ops, op)
			total++
		}
		sc.Tasks = append(sc.Tasks, ops)
	}
	sc.Contend = true
	sc.Sched = SchedSpec{Policy: []string{"park", "park", "uniform", "single"}[r.Intn(4)], MeanGap: 1000, Quantum: 999, PCTDepth: 1,
		SingleA: r.Intn(nTasks), SinglePerm: r.Intn(1001), SyncQ: []int{30, 100, 300}[r.Intn(3)]}
	sc.RefOrder = make([]int, total)
	for i := range sc.RefOrder {
		sc.RefOrder[i] = total - 1 - i
	}
}

func itoa(i int) string { return strconv.Itoa(i) }

func policyID(name string) int {
	for i, n := range zsimrt.PolicyNames {
		if n == name {
			return i
		}
	}
	return zsimrt.PolUniform
}

var fieldChoices = []string{"", "", "", "default", "dflt field", "x"}

// genScenario draws one scenario. cold restricts the choices to those that need
// no solo step counts and make no library call before the simulated run.
func genScenario(r *zsimrt.Rand, run, seed uint64, cold bool, c *corpus) *Scenario {
	sc := genScenario0(r, run, seed, cold, c)
	assignOpts(sc)
	assignOrder(sc)
	return sc
}

func genScenario0(r *zsimrt.Rand, run, seed uint64, cold bool, c *corpus) *Scenario {
	sc := &Scenario{Run: run, Seed: seed, Cold: cold}
	sc.MapSeed = r.Uint64() | 1
	if giantEvery > 0 && !cold && run%giantEvery == giantEvery-1 {
		genGiant(r, sc)
		return sc
	}

	// workload shape (swarm style): 0-3 every task works on ONE shared expression,
	// 4-5 every task hammers the global entry points, 6-9 a free mix
	shape := r.Intn(10)
	if cold && shape >= 2 {
		shape = 4 // a cold process is mostly about the first concurrent use of the global entry points
	}
	focusExpr := shape <= 3 && !cold
	focusGlobal := shape == 4 || shape == 5
	sc.Shape = "mixed"

	// shared pool
	nShared := r.Intn(5) // 0..4
	if !cold && nShared == 0 && r.Intn(4) != 0 {
		nShared = 1 + r.Intn(4)
	}
	if focusExpr {
		nShared = 1 + r.Intn(2)
		sc.Shape = "one-expression"
	}
	if focusGlobal {
		nShared = r.Intn(2)
		sc.Shape = "global-entry-points"
	}
	var sharedFam []string
	famShape := focusExpr && r.Intn(3) == 0
	if famShape {
		// same-construct shape: 2-3 shared expressions that all exercise one construct
		// (wildcards, ranges, lists, ...), tasks spread over them
		sharedFam = c.family(r)
		nShared = 2 + r.Intn(2)
		sc.Shape = "one-construct"
	}
	for i := 0; i < nShared; i++ {
		sp := genExprSpec(r, c, true)
		if focusExpr && i == 0 && r.Intn(4) != 0 {
			sp = ExprSpec{Kind: "parse", Query: c.rich(r), Field: fieldChoices[r.Intn(len(fieldChoices))]}
		}
		if sharedFam != nil {
			sp = ExprSpec{Kind: "parse", Query: sharedFam[r.Intn(len(sharedFam))], Field: fieldChoices[r.Intn(3)]}
		}
		sc.Shared = append(sc.Shared, sp)
	}
	publishSlot := -1
	if nShared > 0 && !focusExpr && r.Intn(8) == 0 {
		publishSlot = len(sc.Shared)
		sp := ExprSpec{Kind: "parse", Query: c.renderable(r), Field: fieldChoices[r.Intn(len(fieldChoices))], Late: true}
		sc.Shared = append(sc.Shared, sp)
	}
	sc.Contend = len(sc.Shared) > 0 && (focusExpr || r.Intn(3) != 0) && !famShape
	hot := 0
	if len(sc.Shared) > 0 && !focusExpr {
		hot = r.Intn(len(sc.Shared))
	}

	nTasks := 2 + r.Intn(5) // 2..6
	if focusExpr {
		nTasks = 2 + r.Intn(3)
	}
	crowd := !focusExpr && r.Intn(25) == 0
	if crowd {
		nTasks = 7 + r.Intn(8) // "many goroutines": 7..14 tasks with one or two operations each
	}
	lateTask := -1
	if nTasks >= 3 && r.Intn(8) == 0 {
		lateTask = 1 + r.Intn(nTasks-1)
	}
	sc.Late = make([]bool, nTasks)
	opsBias := r.Intn(4) // workload mix: 0 all, 1 render-heavy, 2 parse-heavy, 3 print/encode-heavy
	if focusExpr {
		opsBias = 4
	}
	if focusGlobal {
		opsBias = 5
	}
	if famShape {
		opsBias = 6
	}
	faultPerm := []int{0, 0, 50, 200}[r.Intn(4)]
	if !zsimrt.Instrumented {
		faultPerm = 0 // degraded mode: no callback faults
	}
	// hot query set: the global entry points are called again and again with a
	// small per-run set of (query, field) pairs, sized around typical cache
	// capacities, so that memoising code sees hits, misses and evictions in one run
	sc.hot = nil
	if focusGlobal || r.Intn(4) == 0 {
		k := []int{1, 2, 3, 5, 8, 13, 17, 20, 33, 50}[r.Intn(10)]
		nf := 1 + r.Intn(2)
		var fam []string
		if r.Intn(3) == 0 {
			fam = c.family(r) // all hot queries exercise the same construct, with different inputs
			if k > 5 {
				k = 2 + r.Intn(4)
			}
		}
		for i := 0; i < k; i++ {
			q := c.query(r)
			if r.Intn(3) != 0 {
				q = c.renderable(r)
			}
			if fam != nil {
				q = fam[r.Intn(len(fam))]
			}
			sc.hot = append(sc.hot, hotQuery{q, fieldChoices[r.Intn(nf*3)%len(fieldChoices)]})
		}
	}
	for t := 0; t < nTasks; t++ {
		nOps := 1 + r.Intn(6)
		if focusExpr {
			nOps = 1 + r.Intn(3)
		}
		if famShape {
			nOps = 2 + r.Intn(4)
		}
		if crowd {
			nOps = 1 + r.Intn(2)
		}
		if focusGlobal && len(sc.hot) >= 8 {
			nOps = 4 + r.Intn(10)
		}
		var ops []Op
		for i := 0; i < nOps; i++ {
			ops = append(ops, genOp(r, c, sc, opsBias, faultPerm, hot))
		}
		sc.Tasks = append(sc.Tasks, ops)
	}
	if cold && r.Intn(4) != 0 {
		// first-use burst: every task starts with the SAME call on the same (rich) input,
		// so that whatever that path initialises lazily is first reached concurrently
		q := c.rich(r)
		if r.Intn(3) == 0 {
			// ... or on a freshly generated input (odd column names, inputs with several faults): the
			// first use of the paths that REJECT something is then concurrent too
			q = strings.ToValidUTF8(genQuery(r, 0), "?")
		}
		f := fieldChoices[r.Intn(len(fieldChoices))]
		kind := []string{KToPG, KToParam, KToPG, KToParam, KParse, KRender, KRenderParam, KCRenderParam, KMarshal, KString, KValidate, KUnmarshal}[r.Intn(12)]
		for t := range sc.Tasks {
			if r.Intn(5) == 0 {
				continue
			}
			op := Op{Kind: kind, Shared: -1}
			switch kind {
			case KParse, KToPG, KToParam:
				op.Query, op.Field = q, f
			case KUnmarshal:
				op.Query = c.jsonDoc(r)
			default:
				op.Priv = &ExprSpec{Kind: "parse", Query: q, Field: f}
				op.Fresh = true
			}
			sc.Tasks[t] = append([]Op{op}, sc.Tasks[t]...)
		}
	}
	if lateTask >= 0 {
		sc.Late[lateTask] = true
		spawner := r.Intn(nTasks)
		for spawner == lateTask {
			spawner = r.Intn(nTasks)
		}
		at := r.Intn(len(sc.Tasks[spawner]) + 1)
		ops := sc.Tasks[spawner]
		ops = append(ops[:at:at], append([]Op{{Kind: KSpawn, Shared: -1, Target: lateTask}}, ops[at:]...)...)
		sc.Tasks[spawner] = ops
	}
	if publishSlot >= 0 {
		pub := r.Intn(nTasks)
		at := r.Intn(len(sc.Tasks[pub]) + 1)
		ops := sc.Tasks[pub]
		ops = append(ops[:at:at], append([]Op{{Kind: KPublish, Shared: publishSlot}}, ops[at:]...)...)
		sc.Tasks[pub] = ops
	}

	// schedule and fault configuration
	var pols []string
	if cold {
		pols = []string{"uniform", "uniform", "rr", "targeted", "park", "park", "park"}
	} else {
		pols = []string{"uniform", "uniform", "uniform", "pct", "pct", "single", "single", "rr", "targeted", "targeted", "park", "park"}
	}
	if zsimrt.UsesSync {
		// the library takes locks: spend a good share of the runs preempting exactly at lock releases/acquires
		pols = append(pols, "sync", "sync", "sync", "sync")
	}
	if zsimrt.UsesAtomic {
		// the library uses atomics: lock-free protocols break between two atomic operations,
		// which is exactly where park freezes a task
		pols = append(pols, "park", "park", "park", "park")
	}
	if famShape {
		pols = append(pols, "park", "park", "park")
	}
	sp := SchedSpec{Policy: pols[r.Intn(len(pols))]}
	sp.SyncQ = []int{1, 2, 4, 10, 30}[r.Intn(5)]
	if zsimrt.UsesTime {
		// the library reads the clock: let time pass between the passes and jump inside the run
		gaps := []int64{0, 0, int64(2e9), int64(90e9), int64(7200e9), int64(3 * 86400e9)}
		sc.ClockGaps = [2]int64{gaps[r.Intn(len(gaps))], gaps[r.Intn(len(gaps))]}
		sp.ClockPermil = []int{0, 2, 20, 100}[r.Intn(4)]
	}
	sp.MeanGap = []int{1, 3, 10, 30, 100, 1000}[r.Intn(6)]
	if focusExpr || cold {
		sp.MeanGap = []int{1, 2, 5, 10, 30, 100}[r.Intn(6)]
	}
	sp.Quantum = []int{1, 2, 5, 17, 100, 999}[r.Intn(6)]
	sp.PCTDepth = 1 + r.Intn(3)
	sp.SingleA = r.Intn(nTasks)
	sp.SinglePerm = r.Intn(1001)
	if r.Intn(4) == 0 {
		sp.GCPermil = []int{1, 5, 20}[r.Intn(3)]
	}
	if r.Intn(3) == 0 {
		sp.StallPermil = []int{5, 20, 100}[r.Intn(3)]
		sp.StallMean = []int{50, 500, 5000}[r.Intn(3)]
	}
	sc.Sched = sp
	switch k := r.Intn(10); {
	case k == 0 || focusExpr && k <= 2:
		sc.O2Every = 1
	case k <= 2 || focusExpr && k <= 5:
		sc.O2Every = 16
	}

	// order of the second solo pass: a permutation of all operations
	n := 0
	for _, ops := range sc.Tasks {
		n += len(ops)
	}
	sc.RefOrder = make([]int, n)
	for i := range sc.RefOrder {
		sc.RefOrder[i] = i
	}
	for i := n - 1; i > 0; i-- {
		j := r.Intn(i + 1)
		sc.RefOrder[i], sc.RefOrder[j] = sc.RefOrder[j], sc.RefOrder[i]
	}
	return sc
}

func genExprSpec(r *zsimrt.Rand, c *corpus, renderBias bool) ExprSpec {
	switch r.Intn(10) {
	case 0, 1:
		return ExprSpec{Kind: "ctor", Ctor: r.Intn(numCtors)}
	case 2:
		return ExprSpec{Kind: "json", Query: c.jsonDoc(r)}
	}
	q := c.query(r)
	if renderBias && r.Intn(3) != 0 {
		q = c.renderable(r)
	}
	return ExprSpec{Kind: "parse", Query: q, Field: fieldChoices[r.Intn(len(fieldChoices))]}
}

var (
	kindsAll       = []string{KMisc, KEditPrint, KParse, KParse, KToPG, KToParam, KRender, KRenderParam, KRenderParam, KCRender, KCRenderParam, KString, KGoString, KSprint, KMarshal, KMarshalDir, KValidate, KUnmarshal, KNewDriver}
	kindsRender    = []string{KRender, KRenderParam, KRenderParam, KCRender, KCRenderParam, KToPG, KToParam, KString}
	kindsParse     = []string{KParse, KParse, KParse, KToPG, KToParam, KUnmarshal, KValidate}
	kindsPrint     = []string{KMisc, KEditPrint, KString, KGoString, KSprint, KMarshal, KMarshal, KMarshalDir, KValidate, KUnmarshal, KRenderParam}
	kindsSubj      = []string{KMisc, KEditPrint, KRender, KRender, KRenderParam, KRenderParam, KCRender, KCRenderParam, KString, KGoString, KSprint, KMarshal, KMarshalDir, KValidate}
	kindsRenderish = []string{KRender, KRender, KRender, KRender, KRenderParam, KRenderParam, KRenderParam, KCRender, KCRenderParam, KString, KMarshal, KValidate}
	kindsGlobal    = []string{KParse, KParse, KToPG, KToPG, KToParam, KToParam, KNewDriver, KUnmarshal}
)

func genOp(r *zsimrt.Rand, c *corpus, sc *Scenario, bias, faultPerm, hot int) Op {
	kinds := kindsAll
	switch bias {
	case 1:
		kinds = kindsRender
	case 2:
		kinds = kindsParse
	case 3:
		kinds = kindsPrint
	case 4:
		kinds = kindsSubj
	case 5:
		kinds = kindsGlobal
	case 6:
		kinds = kindsRenderish
	}
	if r.Intn(5) == 0 && bias < 4 || r.Intn(12) == 0 && bias != 6 {
		kinds = kindsAll
	}
	op := Op{Kind: kinds[r.Intn(len(kinds))], Shared: -1}
	switch op.Kind {
	case KParse, KToPG, KToParam:
		op.Query = c.query(r)
		if op.Kind != KParse && r.Intn(3) != 0 {
			op.Query = c.renderable(r)
		}
		op.Field = fieldChoices[r.Intn(len(fieldChoices))]
		if len(sc.hot) > 0 && r.Intn(8) != 0 {
			h := sc.hot[r.Intn(len(sc.hot))]
			op.Query, op.Field = h.q, h.field
		}
		return op
	case KUnmarshal:
		op.Query = c.jsonDoc(r)
		return op
	case KNewDriver:
		return op
	}
	// operations with an expression subject
	if op.Kind == KEditPrint {
		sp := genExprSpec(r, c, true)
		op.Priv = &sp
		return op
	}
	if len(sc.Shared) > 0 && (bias == 4 || bias == 6 || r.Intn(5) != 0) {
		if sc.Contend && (bias == 4 || r.Intn(6) != 0) {
			op.Shared = hot
		} else {
			op.Shared = r.Intn(len(sc.Shared))
		}
	} else {
		sp := genExprSpec(r, c, op.Kind == KRender || op.Kind == KRenderParam || op.Kind == KCRender || op.Kind == KCRenderParam)
		op.Priv = &sp
	}
	if op.Kind == KMisc {
		op.Query = c.jsonDoc(r)
	}
	switch op.Kind {
	case KRender, KRenderParam:
		op.Fresh = r.Intn(4) == 0 || sc.Cold // cold: no driver value exists before the run
		op.MapDrv = !op.Fresh && r.Intn(6) == 0
	case KString, KGoString, KSprint, KMarshal, KMarshalDir, KValidate:
		op.Copy = r.Intn(5) == 0
	case KCRender, KCRenderParam:
		op.Sparse = r.Intn(6) == 0
		if faultPerm > 0 && r.Intn(1000) < faultPerm*3 {
			kinds := []string{FError, FError, FPanic, FPanic, FSlow, FSlow, FExit}
			op.Fault = &Fault{Kind: kinds[r.Intn(len(kinds))], At: 1 + r.Intn(4)}
		}
	}
	return op
}

// flatIndex maps (task, op) to the flattened operation number and back.
func (sc *Scenario) flat() (idx [][]int, total int) {
	idx = make([][]int, len(sc.Tasks))
	for t, ops := range sc.Tasks {
		idx[t] = make([]int, len(ops))
		for i := range ops {
			idx[t][i] = total
			total++
		}
	}
	return
}

func (sc *Scenario) summary() string {
	var sb strings.Builder
	for t, ops := range sc.Tasks {
		if t > 0 {
			sb.WriteString(" || ")
		}
		for i, op := range ops {
			if i > 0 {
				sb.WriteString("; ")
			}
			sb.WriteString(op.Kind)
			if op.Shared >= 0 {
				sb.WriteString("#")
				sb.WriteString(string(rune('0' + op.Shared)))
			}
		}
	}
	return sb.String()
}
