package main

import (
	"fmt"
	"strings"
	"unsafe"

	lucene "github.com/grindlemire/go-lucene"
	"github.com/grindlemire/go-lucene/internal/zsimrt"
	"github.com/grindlemire/go-lucene/pkg/lucene/expr"
)

// Caller-owned option slices.
//
// Parse, ToPostgres and ToParameterizedPostgres take their options as a variadic
// parameter. A caller who writes Parse(q, opts...) hands the library ITS OWN slice:
// the library receives the same backing array, including whatever spare capacity
// it has. A server keeps such a slice in a package-level variable and every request
// goroutine passes it. The option slice is an argument like any other: the library
// may read it, it may not write to it (an append that lands in the spare capacity,
// a sort, a de-duplication in place), and calls that share it must not disturb each
// other.
//
// The option type is unexported, so the slices are built through type inference;
// nothing here names the type, and nothing depends on what kind of type it is.
//
// Two layouts per default field f:
//
//	layout 1: [With(f)]              len 1, capacity 4 (three spare slots)   — f == "": len 0, capacity 3
//	layout 2: [With(other), With(f)] len 2, capacity 2 (full: an append reallocates; order matters)
//
// The spare slots hold a sentinel option that is never applied by a correct library.

type optEntry struct {
	parse   func(q string) (*expr.Expression, error)
	topg    func(q string) (string, error)
	toparam func(q string) (string, []any, error)
	// check: "" while every slot of the backing array (up to capacity) still holds the
	// very option value the caller put there
	check func() string
}

const (
	optsSentinelField = "zsim_spare_slot_never_applied"
	optsOtherField    = "zsim_overridden_by_the_next_option"
)

func slotBytes[T any](full []T) [][]byte {
	out := make([][]byte, len(full))
	for i := range full {
		sz := unsafe.Sizeof(full[i])
		b := make([]byte, sz)
		copy(b, unsafe.Slice((*byte)(unsafe.Pointer(&full[i])), sz))
		out[i] = b
	}
	return out
}

func mkOptEntry[T any](spare int, sentinel T,
	parse func(string, ...T) (*expr.Expression, error),
	topg func(string, ...T) (string, error),
	toparam func(string, ...T) (string, []any, error),
	xs ...T) *optEntry {
	full := make([]T, len(xs)+spare)
	copy(full, xs)
	for i := len(xs); i < len(full); i++ {
		full[i] = sentinel
	}
	s := full[:len(xs)] // capacity: len(full)
	want := slotBytes(full)
	n := len(xs)
	return &optEntry{
		parse:   func(q string) (*expr.Expression, error) { return parse(q, s...) },
		topg:    func(q string) (string, error) { return topg(q, s...) },
		toparam: func(q string) (string, []any, error) { return toparam(q, s...) },
		check: func() string {
			got := slotBytes(full)
			for i := range want {
				if string(got[i]) != string(want[i]) {
					where := "an element"
					if i >= n {
						where = "the spare capacity"
					}
					return fmt.Sprintf("slot %d of the caller's option slice (len %d, cap %d) no longer holds the option the caller put there: the library wrote to %s of its variadic argument",
						i, n, len(full), where)
				}
			}
			return ""
		},
	}
}

type optKey struct {
	field  string
	layout int
}

var optReg = map[optKey]*optEntry{}

func buildOptEntry(k optKey) *optEntry {
	sentinel := lucene.WithDefaultField(optsSentinelField)
	switch {
	case k.field == "":
		return mkOptEntry(3, sentinel, lucene.Parse, lucene.ToPostgres, lucene.ToParameterizedPostgres)
	case k.layout == 2:
		return mkOptEntry(0, sentinel, lucene.Parse, lucene.ToPostgres, lucene.ToParameterizedPostgres,
			lucene.WithDefaultField(optsOtherField), lucene.WithDefaultField(k.field))
	default:
		return mkOptEntry(3, sentinel, lucene.Parse, lucene.ToPostgres, lucene.ToParameterizedPostgres,
			lucene.WithDefaultField(k.field))
	}
}

func optKeyOf(op *Op) optKey {
	k := optKey{op.Field, op.Opts}
	if k.field == "" || k.layout != 2 {
		k.layout = 1
	}
	return k
}

// ensureOpts builds (on the main goroutine, outside any simulated run) the option
// slices a scenario's operations pass, and replaces any that an earlier scenario
// left written to — that was reported there; this scenario starts from clean ones.
func ensureOpts(sc *Scenario) {
	for t := range sc.Tasks {
		for i := range sc.Tasks[t] {
			op := &sc.Tasks[t][i]
			if op.Opts == 0 {
				continue
			}
			switch op.Kind {
			case KParse, KToPG, KToParam:
				k := optKeyOf(op)
				if e := optReg[k]; e == nil || e.check() != "" {
					optReg[k] = buildOptEntry(k)
				}
			}
		}
	}
}

func optsFor(op *Op) *optEntry {
	if op.Opts == 0 {
		return nil
	}
	e := optReg[optKeyOf(op)]
	if e == nil {
		panic("zsim: option slice not prepared for " + op.Kind)
	}
	return e
}

// assignOpts decides, from a stream of its own (so that nothing else about a scenario
// depends on it), which parse-type operations pass a caller-owned option slice.
func assignOpts(sc *Scenario) {
	if sc.Cold || sc.Giant {
		return // cold: building an option value would be a library call before the first use under test
	}
	r := zsimrt.NewRand(sc.Seed ^ 0x6f7074735f736c69)
	mode := r.Intn(5)
	if mode >= 3 {
		return
	}
	for t := range sc.Tasks {
		for i := range sc.Tasks[t] {
			op := &sc.Tasks[t][i]
			switch op.Kind {
			case KParse, KToPG, KToParam:
				switch mode {
				case 0: // every such call passes the layout-1 slice of its field
					op.Opts = 1
				case 1:
					if r.Intn(3) == 0 {
						op.Opts = 1 + r.Intn(2)
					}
				case 2:
					op.Opts = 1 + r.Intn(2)
				}
			}
		}
	}
}

// assignOrder decides (from a stream of its own) whether the simulated run comes BEFORE the
// solo passes. Normally the first solo pass runs first — its step counts place PolSingle's
// preemption and PCT's change points — which also means that every input of the scenario has
// been seen once, sequentially, before the tasks meet it. State the library keeps PER INPUT is
// then always warm. One scenario in three (of those whose policy does not need the solo step
// counts) therefore runs the simulation first, as the first scenario of a cold process does.
func assignOrder(sc *Scenario) {
	if sc.Cold || sc.Giant {
		return
	}
	switch sc.Sched.Policy {
	case "single", "pct":
		return
	}
	r := zsimrt.NewRand(sc.Seed ^ 0x73696d5f66697273)
	sc.SimFirst = r.Intn(3) == 0
	if !sc.SimFirst || r.Intn(2) == 0 {
		return
	}
	// A FRESH input met by several tasks at once, for the first time in the process: one
	// generated query (odd column names, several faults) is planted into two to four
	// operations of different tasks — the entry points take it as their query, operations on a
	// private expression as the query that expression is parsed from.
	q := strings.ToValidUTF8(genMultiFault(r), "?")
	if r.Intn(2) == 0 {
		q = oddColumn(r) + ":" + pick(r, gWords) + pick(r, []string{" AND ", " OR ", " "}) + strings.ToValidUTF8(genTerm(r), "?")
	}
	type ref struct{ t, i int }
	var where []ref
	for t := range sc.Tasks {
		for i := range sc.Tasks[t] {
			op := &sc.Tasks[t][i]
			switch op.Kind {
			case KParse, KToPG, KToParam:
				where = append(where, ref{t, i})
			case KRender, KRenderParam, KCRender, KCRenderParam, KString, KValidate, KMarshal:
				if op.Shared < 0 && op.Priv != nil && op.Priv.Kind == "parse" {
					where = append(where, ref{t, i})
				}
			}
		}
	}
	for n := 2 + r.Intn(3); n > 0 && len(where) > 0; n-- {
		k := r.Intn(len(where))
		op := &sc.Tasks[where[k].t][where[k].i]
		if op.Priv != nil && op.Kind != KParse && op.Kind != KToPG && op.Kind != KToParam {
			sp := *op.Priv
			sp.Query = q
			op.Priv = &sp
		} else {
			op.Query = q
		}
		where = append(where[:k], where[k+1:]...)
	}
}
