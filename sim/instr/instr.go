// Package instr rewrites a scratch copy of the repository so that the C14
// simulator owns scheduling: it splices `zsimrt.Y(<site>); ` in front of every
// statement that sits in a statement list. Text is spliced (not re-printed) so
// that every comment, directive and line number stays what it is in /repo.
package instr

import (
	"fmt"
	"go/ast"
	"go/build"
	"go/importer"
	"go/parser"
	"go/token"
	"go/types"
	"os"
	"path/filepath"
	"sort"
	"strconv"
	"strings"
)

// Site is one inserted yield.
type Site struct {
	File  string `json:"file"`
	Line  int    `json:"line"`
	Flags uint8  `json:"flags"`
}

// Result describes what the instrumenter did and found.
type Result struct {
	Module   string   `json:"module"`
	Files    []string `json:"files"`
	Sites    []Site   `json:"-"`
	NumSites int      `json:"num_sites"`
	// ExitSites counts the function-exit yields (functions that defer something).
	ExitSites int  `json:"exit_sites"`
	Flagged   int  `json:"flagged_sites"`
	UsesSync  bool `json:"uses_sync"`
	// UsesTime: some library file imports package time (rewritten to the ztime shim: the simulator owns the clock).
	UsesTime bool `json:"uses_time"`
	// UsesAtomic: some library file imports sync/atomic (rewritten to the zatomic shim: every atomic operation is a yield).
	UsesAtomic bool `json:"uses_atomic"`
	// Unowned lists constructs the simulator cannot schedule (the library's own
	// goroutines, channel operations, select): they force the degraded mode.
	Unowned []string `json:"unowned,omitempty"`
	// MapRanges is the number of `range <map>` loops whose iteration order the
	// simulator took over; MapOrderOwned is false when type checking failed (then
	// Go's per-process random order remains and replays inside such loops are
	// only probabilistic).
	// GoStmts and ChanOps count the library's own go statements and channel operations
	// (send, receive, range, close, select) that the simulator took over: the goroutines
	// become simulated tasks, the channel operations wait cooperatively (zsimrt/go.go, chan.go).
	GoStmts       int    `json:"go_statements_owned"`
	ChanOps       int    `json:"channel_operations_owned"`
	NeedsGo123    bool   `json:"-"`
	MapRanges     int    `json:"map_ranges_owned"`
	MapOrderOwned bool   `json:"map_order_owned"`
	TypeCheckNote string `json:"typecheck_note,omitempty"`
	// Notes lists imports through which the library could observe something
	// outside its arguments (clock, OS, network, random numbers). They do not stop
	// the simulation; if such a value reaches a result, O4/O5 report it.
	Notes []string `json:"notes,omitempty"`
}

const (
	flagGlobal    = 1
	flagHeapWrite = 2
	flagExit      = 4
	flagHotGlobal = 8 // the statement assigns to, or calls a method on, something rooted at a package-level variable
)

var skipDirs = map[string]bool{".git": true, "cmd": true, "fuzz": true, "vendor": true, "testdata": true, "zsim": true}

var unownedImports = map[string]bool{
	"time": true, "os": true, "net": true, "net/http": true, "context": true, "math/rand": true,
	"math/rand/v2": true, "os/exec": true, "os/signal": true, "syscall": true, "C": true, "io/ioutil": true,
	"crypto/rand": true,
}

// ModulePath reads the module path from root/go.mod.
func ModulePath(root string) (string, error) {
	b, err := os.ReadFile(filepath.Join(root, "go.mod"))
	if err != nil {
		return "", err
	}
	for _, ln := range strings.Split(string(b), "\n") {
		ln = strings.TrimSpace(ln)
		if strings.HasPrefix(ln, "module") {
			return strings.TrimSpace(strings.TrimPrefix(ln, "module")), nil
		}
	}
	return "", fmt.Errorf("no module line in go.mod")
}

// LibraryFiles lists the non-test Go files of the library packages under root.
func LibraryFiles(root string) ([]string, error) {
	var files []string
	err := filepath.Walk(root, func(p string, info os.FileInfo, err error) error {
		if err != nil {
			return err
		}
		rel, _ := filepath.Rel(root, p)
		if info.IsDir() {
			if rel == "." {
				return nil
			}
			if skipDirs[info.Name()] || strings.HasPrefix(info.Name(), ".") || strings.HasPrefix(info.Name(), "_") {
				return filepath.SkipDir
			}
			if rel == filepath.Join("internal", "zsimrt") || rel == filepath.Join("internal", "zsync") || rel == filepath.Join("internal", "zatomic") || rel == filepath.Join("internal", "ztime") {
				return filepath.SkipDir
			}
			if _, err := os.Stat(filepath.Join(p, "go.mod")); err == nil {
				return filepath.SkipDir // nested module
			}
			return nil
		}
		if strings.HasSuffix(p, ".go") && !strings.HasSuffix(p, "_test.go") {
			// honour build constraints (//go:build lines, _GOOS/_GOARCH suffixes): a file the
			// default build does not compile is neither instrumented nor type-checked
			if ok, err := build.Default.MatchFile(filepath.Dir(p), filepath.Base(p)); err == nil && !ok {
				return nil
			}
			files = append(files, rel)
		}
		return nil
	})
	sort.Strings(files)
	return files, err
}

type edit struct {
	off  int
	text string
	del  int // bytes to delete at off before inserting
}

// Instrument rewrites the library files under root in place. When plain is true
// no yields are inserted (only the scan for unowned constructs happens): that is
// the degraded mode's build.
func Instrument(root string, plain bool) (*Result, error) {
	mod, err := ModulePath(root)
	if err != nil {
		return nil, err
	}
	files, err := LibraryFiles(root)
	if err != nil {
		return nil, err
	}
	res := &Result{Module: mod, Files: files}
	fset := token.NewFileSet()
	parsed := map[string]*ast.File{}
	src := map[string][]byte{}
	// package-level variable names, keyed by package name
	pkgVars := map[string]map[string]bool{}
	for _, f := range files {
		b, err := os.ReadFile(filepath.Join(root, f))
		if err != nil {
			return nil, err
		}
		af, err := parser.ParseFile(fset, f, b, parser.ParseComments)
		if err != nil {
			return nil, fmt.Errorf("parse %s: %w", f, err)
		}
		parsed[f] = af
		src[f] = b
		m := pkgVars[af.Name.Name]
		if m == nil {
			m = map[string]bool{}
			pkgVars[af.Name.Name] = m
		}
		for _, d := range af.Decls {
			gd, ok := d.(*ast.GenDecl)
			if !ok || gd.Tok != token.VAR {
				continue
			}
			for _, sp := range gd.Specs {
				for _, n := range sp.(*ast.ValueSpec).Names {
					if n.Name != "_" {
						m[n.Name] = true
					}
				}
			}
		}
	}

	// type information: `range` over a map or a channel, calls of the builtin close,
	// constant or nil arguments of go statements
	ti := &typeInfo{mapRange: map[*ast.RangeStmt]bool{}, chanRange: map[*ast.RangeStmt]bool{}, closeCall: map[*ast.CallExpr]bool{}, constExpr: map[ast.Expr]bool{}}
	mapRange := ti.mapRange
	typesOK := false
	if !plain {
		note := typeCheck(fset, mod, files, parsed, ti)
		res.TypeCheckNote = note
		res.MapOrderOwned = note == ""
		typesOK = note == ""
	}
	ownConc := !plain && typesOK // the library's own goroutines and channel operations can be taken over
	selN := 0
	goN := 0

	for _, f := range files {
		af := parsed[f]
		b := src[f]
		tf := fset.File(af.Pos())
		var edits []edit
		own := pkgVars[af.Name.Name]

		// imports
		for _, im := range af.Imports {
			path, _ := strconv.Unquote(im.Path.Value)
			if unownedImports[path] {
				res.Notes = append(res.Notes, fmt.Sprintf("%s: import %q", f, path))
			}
			if path == "time" {
				res.UsesTime = true
				if !plain {
					off := tf.Offset(im.Path.Pos())
					repl := strconv.Quote(mod + "/internal/ztime")
					if im.Name == nil {
						repl = "time " + repl
					}
					edits = append(edits, edit{off: off, del: len(im.Path.Value), text: repl})
				}
			}
			if path == "sync/atomic" {
				res.UsesAtomic = true
				if !plain {
					off := tf.Offset(im.Path.Pos())
					repl := strconv.Quote(mod + "/internal/zatomic")
					if im.Name == nil {
						repl = "atomic " + repl
					}
					edits = append(edits, edit{off: off, del: len(im.Path.Value), text: repl})
				}
			}
			if path == "sync" {
				res.UsesSync = true
				if !plain {
					off := tf.Offset(im.Path.Pos())
					repl := strconv.Quote(mod + "/internal/zsync")
					if im.Name == nil {
						repl = "sync " + repl
					}
					edits = append(edits, edit{off: off, del: len(im.Path.Value), text: repl})
				}
			}
		}

		commOp := map[ast.Node]bool{}      // the communication of a select case: left as it is
		recv2 := map[*ast.UnaryExpr]bool{} // receives whose second result is used
		nSites := 0
		addSite := func(st ast.Stmt) {
			switch st.(type) {
			case *ast.CaseClause, *ast.CommClause:
				return
			}
			pos := fset.Position(st.Pos())
			fl := stmtFlags(st, own, pkgVars)
			id := len(res.Sites)
			res.Sites = append(res.Sites, Site{File: filepath.ToSlash(f), Line: pos.Line, Flags: fl})
			if fl != 0 {
				res.Flagged++
			}
			nSites++
			if !plain {
				edits = append(edits, edit{off: tf.Offset(st.Pos()), text: "zsimrt.Y(" + strconv.Itoa(id) + "); "})
			}
		}
		// exit yields: a function that defers something (a Put, an Unlock, a restore)
		// gets `defer zsimrt.Y(site)` as its FIRST deferred call, which therefore runs
		// LAST — after the function's own deferred calls and before control is back
		// in the caller. That is the window in which a returned value may still alias
		// state that the deferred call has just handed back.
		addExit := func(body *ast.BlockStmt) {
			if body == nil || plain || !hasDirectDefer(body) {
				return
			}
			pos := fset.Position(body.Rbrace)
			id := len(res.Sites)
			res.Sites = append(res.Sites, Site{File: filepath.ToSlash(f), Line: pos.Line, Flags: flagExit})
			res.Flagged++
			res.ExitSites++
			nSites++
			edits = append(edits, edit{off: tf.Offset(body.Lbrace) + 1, text: " defer zsimrt.Y(" + strconv.Itoa(id) + ");"})
		}
		ast.Inspect(af, func(n ast.Node) bool {
			switch v := n.(type) {
			case *ast.FuncDecl:
				addExit(v.Body)
			case *ast.FuncLit:
				addExit(v.Body)
			case *ast.BlockStmt:
				for _, st := range v.List {
					addSite(st)
				}
			case *ast.CaseClause:
				for _, st := range v.Body {
					addSite(st)
				}
			case *ast.RangeStmt:
				if mapRange[v] && !plain {
					res.MapRanges++
					edits = append(edits, edit{off: tf.Offset(v.X.Pos()), text: "zsimrt.MapSeq("})
					edits = append(edits, edit{off: tf.Offset(v.X.End()), text: ")"})
				}
				if ti.chanRange[v] && ownConc {
					res.ChanOps++
					res.NeedsGo123 = true
					edits = append(edits, edit{off: tf.Offset(v.X.Pos()), text: "zsimrt.ChanSeq("})
					edits = append(edits, edit{off: tf.Offset(v.X.End()), text: ")"})
				}
			case *ast.CallExpr:
				if ti.closeCall[v] && ownConc {
					if id, ok := v.Fun.(*ast.Ident); ok {
						res.ChanOps++
						edits = append(edits, edit{off: tf.Offset(id.Pos()), del: len(id.Name), text: "zsimrt.ChanClose"})
					}
				}
				// callbacks that the runtime runs on a goroutine of its own: the simulator cannot own them
				if sel, ok := v.Fun.(*ast.SelectorExpr); ok {
					if id, ok := sel.X.(*ast.Ident); ok {
						name := id.Name + "." + sel.Sel.Name
						switch name {
						case "runtime.SetFinalizer", "runtime.AddCleanup", "time.AfterFunc":
							res.Unowned = append(res.Unowned, fmt.Sprintf("%s:%d: %s (its callback runs on a goroutine of the runtime)", f, fset.Position(v.Pos()).Line, name))
						}
					}
				}
			case *ast.SelectorExpr:
				// channels fed by the runtime's timers fire in real time: not something the simulator owns
				if id, ok := v.X.(*ast.Ident); ok && id.Name == "time" {
					switch v.Sel.Name {
					case "After", "Tick", "NewTimer", "NewTicker":
						res.Unowned = append(res.Unowned, fmt.Sprintf("%s:%d: time.%s (a channel fed by a runtime timer)", f, fset.Position(v.Pos()).Line, v.Sel.Name))
					}
				}
			case *ast.GoStmt:
				if !ownConc {
					res.Unowned = append(res.Unowned, fmt.Sprintf("%s:%d: go statement", f, fset.Position(v.Pos()).Line))
					break
				}
				res.GoStmts++
				goN++
				call := v.Call
				if _, isLit := call.Fun.(*ast.FuncLit); isLit && len(call.Args) == 0 {
					// go func() {…}()  ->  zsimrt.Go( func() {…})
					edits = append(edits, edit{off: tf.Offset(v.Pos()), del: 2, text: "zsimrt.Go("})
					edits = append(edits, edit{off: tf.Offset(call.Lparen), del: tf.Offset(call.Rparen) + 1 - tf.Offset(call.Lparen), text: ")"})
					break
				}
				// go F(A0, A1)  ->  { _zf := F; _za0 := A0; _za1 := A1; zsimrt.Go(func() { _zf(_za0, _za1) }) }
				// (function value and arguments are evaluated by the go statement itself; constant
				// and nil arguments are written into the call instead: `:=` would fix their type)
				fn := "_zf" + strconv.Itoa(goN)
				edits = append(edits, edit{off: tf.Offset(v.Pos()), del: 2, text: "{ " + fn + " :="})
				var callArgs []string
				prevEnd := tf.Offset(call.Lparen) // start of the text still to be replaced
				first := true
				for i, a := range call.Args {
					aOff, aEnd := tf.Offset(a.Pos()), tf.Offset(a.End())
					if ti.constExpr[a] {
						callArgs = append(callArgs, string(b[aOff:aEnd]))
						// drop "(" or ", " and the argument's own text
						edits = append(edits, edit{off: prevEnd, del: aEnd - prevEnd, text: ""})
						prevEnd = aEnd
						continue
					}
					an := "_za" + strconv.Itoa(goN) + "_" + strconv.Itoa(i)
					callArgs = append(callArgs, an)
					edits = append(edits, edit{off: prevEnd, del: aOff - prevEnd, text: "; " + an + " := "})
					prevEnd = aEnd
					first = false
				}
				_ = first
				dots := ""
				if call.Ellipsis.IsValid() {
					dots = "..."
				}
				edits = append(edits, edit{off: prevEnd, del: tf.Offset(call.Rparen) + 1 - prevEnd,
					text: "; zsimrt.Go(func() { " + fn + "(" + strings.Join(callArgs, ", ") + dots + ") }) }"})
			case *ast.CommClause:
				for _, st := range v.Body {
					addSite(st)
				}
				// the communication itself stays what it is (a real channel operation inside a real select)
				switch c := v.Comm.(type) {
				case *ast.SendStmt:
					commOp[c] = true
				case *ast.ExprStmt:
					if u, ok := unparen(c.X).(*ast.UnaryExpr); ok && u.Op == token.ARROW {
						commOp[u] = true
					}
				case *ast.AssignStmt:
					if len(c.Rhs) == 1 {
						if u, ok := unparen(c.Rhs[0]).(*ast.UnaryExpr); ok && u.Op == token.ARROW {
							commOp[u] = true
						}
					}
				}
				if v.Comm != nil && ownConc {
					edits = append(edits, edit{off: tf.Offset(v.Colon) + 1, text: " zsimrt.ChanEvent();"})
				}
			case *ast.SelectStmt:
				if !ownConc {
					res.Unowned = append(res.Unowned, fmt.Sprintf("%s:%d: select", f, fset.Position(v.Pos()).Line))
					break
				}
				if len(v.Body.List) == 0 {
					res.Unowned = append(res.Unowned, fmt.Sprintf("%s:%d: select {} (blocks for ever)", f, fset.Position(v.Pos()).Line))
					break
				}
				res.ChanOps++
				var defaultCl *ast.CommClause
				calls := false
				var sendChecks []string
				var comms []*ast.CommClause
				for _, cl := range v.Body.List {
					cc := cl.(*ast.CommClause)
					if cc.Comm == nil {
						defaultCl = cc
						continue
					}
					comms = append(comms, cc)
					ast.Inspect(cc.Comm, func(x ast.Node) bool {
						switch y := x.(type) {
						case *ast.CallExpr, *ast.FuncLit:
							calls = true
						case *ast.UnaryExpr:
							if y.Op == token.ARROW && !isCommTop(cc.Comm, y) {
								calls = true // a nested receive: evaluated on entering the select
							}
						}
						return true
					})
					if snd, ok := cc.Comm.(*ast.SendStmt); ok {
						x := string(b[tf.Offset(snd.Chan.Pos()):tf.Offset(snd.Chan.End())])
						sendChecks = append(sendChecks, "("+x+") != nil && cap("+x+") == 0")
					}
				}
				n := len(comms)
				if n == 0 || defaultCl != nil && n == 1 && len(sendChecks) == 0 {
					break // never blocks, nothing to choose, no send that could need a parked receiver
				}
				if calls {
					res.Unowned = append(res.Unowned, fmt.Sprintf("%s:%d: select whose cases call functions (a retry would evaluate them again)", f, fset.Position(v.Pos()).Line))
					break
				}
				selN++
				lbl := "_zsel" + strconv.Itoa(selN)
				edits = append(edits, edit{off: tf.Offset(v.Pos()), text: lbl + ": "})
				if n > 1 {
					// the simulator owns which ready case is taken: one case enabled per attempt
					for i, cc := range comms {
						var ch ast.Expr
						switch c := cc.Comm.(type) {
						case *ast.SendStmt:
							ch = c.Chan
						case *ast.ExprStmt:
							ch = unparen(c.X).(*ast.UnaryExpr).X
						case *ast.AssignStmt:
							ch = unparen(c.Rhs[0]).(*ast.UnaryExpr).X
						}
						edits = append(edits, edit{off: tf.Offset(ch.Pos()), text: "zsimrt.SelCh(" + strconv.Itoa(i) + ", " + strconv.Itoa(n) + ", "})
						edits = append(edits, edit{off: tf.Offset(ch.End()), text: ")"})
					}
				}
				if defaultCl != nil {
					args := append([]string{strconv.Itoa(n)}, sendChecks...)
					edits = append(edits, edit{off: tf.Offset(defaultCl.Colon) + 1, text: " if zsimrt.SelMore(" + strings.Join(args, ", ") + ") { goto " + lbl + " };"})
				} else {
					args := append([]string{strconv.Itoa(n)}, sendChecks...)
					edits = append(edits, edit{off: tf.Offset(v.Body.Rbrace), text: "default: zsimrt.ChanWait(" + strings.Join(args, ", ") + "); goto " + lbl + "\n"})
				}
			case *ast.SendStmt:
				if commOp[v] {
					break
				}
				if !ownConc {
					res.Unowned = append(res.Unowned, fmt.Sprintf("%s:%d: channel send", f, fset.Position(v.Pos()).Line))
					break
				}
				res.ChanOps++
				edits = append(edits, edit{off: tf.Offset(v.Chan.Pos()), text: "zsimrt.ChanSend("})
				edits = append(edits, edit{off: tf.Offset(v.Chan.End()), del: tf.Offset(v.Arrow) + 2 - tf.Offset(v.Chan.End()), text: ")("})
				edits = append(edits, edit{off: tf.Offset(v.Value.End()), text: ")"})
			case *ast.AssignStmt:
				if len(v.Lhs) == 2 && len(v.Rhs) == 1 {
					if u, ok := unparen(v.Rhs[0]).(*ast.UnaryExpr); ok && u.Op == token.ARROW {
						recv2[u] = true
					}
				}
			case *ast.ValueSpec:
				if len(v.Names) == 2 && len(v.Values) == 1 {
					if u, ok := unparen(v.Values[0]).(*ast.UnaryExpr); ok && u.Op == token.ARROW {
						recv2[u] = true
					}
				}
			case *ast.UnaryExpr:
				if v.Op == token.ARROW && !commOp[v] {
					if !ownConc {
						res.Unowned = append(res.Unowned, fmt.Sprintf("%s:%d: channel receive", f, fset.Position(v.Pos()).Line))
						break
					}
					res.ChanOps++
					name := "zsimrt.ChanRecv("
					if recv2[v] {
						name = "zsimrt.ChanRecv2("
					}
					edits = append(edits, edit{off: tf.Offset(v.OpPos), del: 2, text: name})
					edits = append(edits, edit{off: tf.Offset(v.X.End()), text: ")"})
				}
			}
			return true
		})

		if nSites > 0 && !plain {
			// `package x` -> `package x; import zsimrt "<mod>/internal/zsimrt"` on the same line
			off := tf.Offset(af.Name.End())
			edits = append(edits, edit{off: off, text: "; import zsimrt " + strconv.Quote(mod+"/internal/zsimrt")})
		}
		if len(edits) == 0 {
			continue
		}
		sort.SliceStable(edits, func(i, j int) bool { return edits[i].off < edits[j].off })
		var out []byte
		last := 0
		for _, e := range edits {
			out = append(out, b[last:e.off]...)
			out = append(out, e.text...)
			last = e.off + e.del
		}
		out = append(out, b[last:]...)
		if err := os.WriteFile(filepath.Join(root, f), out, 0o644); err != nil {
			return nil, err
		}
	}
	res.NumSites = len(res.Sites)
	return res, nil
}

// typeCheck type-checks the library packages (standard library from source, the
// library's own packages from the parsed files) and records which range
// statements iterate over a map. It returns "" on success, else why map order
// could not be taken over.
type typeInfo struct {
	mapRange  map[*ast.RangeStmt]bool
	chanRange map[*ast.RangeStmt]bool
	closeCall map[*ast.CallExpr]bool // calls of the builtin close
	constExpr map[ast.Expr]bool      // arguments of go statements that are constants or nil
}

func unparen(e ast.Expr) ast.Expr {
	for {
		p, ok := e.(*ast.ParenExpr)
		if !ok {
			return e
		}
		e = p.X
	}
}

// isCommTop: u is the receive that IS the communication of a select case (not one nested in its operands).
func isCommTop(comm ast.Stmt, u *ast.UnaryExpr) bool {
	switch c := comm.(type) {
	case *ast.ExprStmt:
		return unparen(c.X) == ast.Expr(u)
	case *ast.AssignStmt:
		return len(c.Rhs) == 1 && unparen(c.Rhs[0]) == ast.Expr(u)
	}
	return false
}

func typeCheck(fset *token.FileSet, mod string, files []string, parsed map[string]*ast.File, ti *typeInfo) (note string) {
	defer func() {
		if r := recover(); r != nil {
			note = fmt.Sprintf("type checker panicked: %v", r)
		}
	}()
	byDir := map[string][]*ast.File{}
	for _, f := range files {
		d := filepath.ToSlash(filepath.Dir(f))
		byDir[d] = append(byDir[d], parsed[f])
	}
	pathOf := func(dir string) string {
		if dir == "." {
			return mod
		}
		return mod + "/" + dir
	}
	dirOf := map[string]string{}
	for d := range byDir {
		dirOf[pathOf(d)] = d
	}
	std := importer.ForCompiler(fset, "source", nil)
	done := map[string]*types.Package{}
	var firstErr error
	var imp importerFunc
	var check func(path string) (*types.Package, error)
	check = func(path string) (*types.Package, error) {
		if p, ok := done[path]; ok {
			if p == nil {
				return nil, fmt.Errorf("import cycle through %s", path)
			}
			return p, nil
		}
		done[path] = nil
		info := &types.Info{Types: map[ast.Expr]types.TypeAndValue{}}
		conf := types.Config{Importer: imp, Error: func(err error) {
			if firstErr == nil {
				firstErr = err
			}
		}}
		p, _ := conf.Check(path, fset, byDir[dirOf[path]], info)
		done[path] = p
		for _, af := range byDir[dirOf[path]] {
			ast.Inspect(af, func(n ast.Node) bool {
				switch v := n.(type) {
				case *ast.RangeStmt:
					if tv, ok := info.Types[v.X]; ok && tv.Type != nil {
						switch tv.Type.Underlying().(type) {
						case *types.Map:
							ti.mapRange[v] = true
						case *types.Chan:
							ti.chanRange[v] = true
						}
					}
				case *ast.CallExpr:
					if id, ok := v.Fun.(*ast.Ident); ok && id.Name == "close" {
						if tv, ok := info.Types[v.Fun]; ok && tv.IsBuiltin() {
							ti.closeCall[v] = true
						}
					}
				case *ast.GoStmt:
					for _, a := range v.Call.Args {
						if tv, ok := info.Types[a]; ok && (tv.Value != nil || tv.IsNil()) {
							ti.constExpr[a] = true
						}
					}
				}
				return true
			})
		}
		return p, nil
	}
	imp = func(path string) (*types.Package, error) {
		if _, ok := dirOf[path]; ok {
			return check(path)
		}
		return std.Import(path)
	}
	for path := range dirOf {
		if _, err := check(path); err != nil {
			return err.Error()
		}
	}
	if firstErr != nil {
		return "type errors: " + firstErr.Error()
	}
	return ""
}

type importerFunc func(path string) (*types.Package, error)

func (f importerFunc) Import(path string) (*types.Package, error) { return f(path) }

// BumpGoVersion raises the scratch module's language version to 1.23 when it is
// lower (range-over-func, which MapSeq needs, is a go1.23 language feature).
func BumpGoVersion(root string) error {
	p := filepath.Join(root, "go.mod")
	b, err := os.ReadFile(p)
	if err != nil {
		return err
	}
	lines := strings.Split(string(b), "\n")
	for i, ln := range lines {
		t := strings.TrimSpace(ln)
		if strings.HasPrefix(t, "go ") {
			v := strings.TrimSpace(strings.TrimPrefix(t, "go "))
			parts := strings.Split(v, ".")
			if len(parts) >= 2 && parts[0] == "1" {
				if minor, err := strconv.Atoi(parts[1]); err == nil && minor < 23 {
					lines[i] = "go 1.23"
				}
			}
		}
	}
	return os.WriteFile(p, []byte(strings.Join(lines, "\n")), 0o644)
}

// stmtFlags computes the search-bias flags of one statement. For compound
// statements only the header is looked at: bodies have their own sites.
func stmtFlags(st ast.Stmt, own map[string]bool, all map[string]map[string]bool) uint8 {
	var fl uint8
	var nodes []ast.Node
	switch v := st.(type) {
	case *ast.IfStmt:
		nodes = appendNN(nodes, v.Init, v.Cond)
	case *ast.ForStmt:
		nodes = appendNN(nodes, v.Init, v.Cond, v.Post)
	case *ast.RangeStmt:
		nodes = appendNN(nodes, v.Key, v.Value, v.X)
	case *ast.SwitchStmt:
		nodes = appendNN(nodes, v.Init, v.Tag)
	case *ast.TypeSwitchStmt:
		nodes = appendNN(nodes, v.Init, v.Assign)
	case *ast.BlockStmt, *ast.SelectStmt:
	case *ast.LabeledStmt:
		return stmtFlags(v.Stmt, own, all)
	default:
		nodes = append(nodes, st)
	}
	for _, n := range nodes {
		ast.Inspect(n, func(x ast.Node) bool {
			switch e := x.(type) {
			case *ast.FuncLit:
				return false
			case *ast.Ident:
				if own[e.Name] {
					// not shadow-aware: a local of the same name only costs search bias
					fl |= flagGlobal
				}
			case *ast.SelectorExpr:
				if id, ok := e.X.(*ast.Ident); ok {
					if m := all[id.Name]; m != nil && m[e.Sel.Name] {
						fl |= flagGlobal
					}
				}
			case *ast.AssignStmt:
				for _, l := range e.Lhs {
					if heapLHS(l) {
						fl |= flagHeapWrite
					}
					if rootedAtGlobal(l, own, all) {
						fl |= flagHotGlobal
					}
				}
			case *ast.IncDecStmt:
				if heapLHS(e.X) {
					fl |= flagHeapWrite
				}
				if rootedAtGlobal(e.X, own, all) {
					fl |= flagHotGlobal
				}
			case *ast.CallExpr:
				if id, ok := e.Fun.(*ast.Ident); ok && (id.Name == "append" || id.Name == "copy" || id.Name == "delete" || id.Name == "clear") {
					fl |= flagHeapWrite
					if (id.Name == "delete" || id.Name == "clear" || id.Name == "copy") && len(e.Args) > 0 && rootedAtGlobal(e.Args[0], own, all) {
						fl |= flagHotGlobal
					}
				}
				// a method call on (a field of) a package-level variable: pool.Get/Put, mu.Lock, buf.Write, cache.put ...
				if sel, ok := e.Fun.(*ast.SelectorExpr); ok && rootedAtGlobal(sel.X, own, all) {
					fl |= flagHotGlobal
				}
			}
			return true
		})
	}
	return fl
}

// hasDirectDefer reports whether the function body contains a defer statement of
// its own (not one inside a nested function literal).
func hasDirectDefer(body *ast.BlockStmt) bool {
	found := false
	ast.Inspect(body, func(n ast.Node) bool {
		switch n.(type) {
		case *ast.FuncLit:
			return false
		case *ast.DeferStmt:
			found = true
		}
		return !found
	})
	return found
}

// rootedAtGlobal: x, x.f, x[i], x.f[i].g, *x ... where x is a package-level variable of
// this package, or pkg.X with X a package-level variable of another library package.
func rootedAtGlobal(e ast.Expr, own map[string]bool, all map[string]map[string]bool) bool {
	for {
		switch v := e.(type) {
		case *ast.Ident:
			return own[v.Name]
		case *ast.SelectorExpr:
			if id, ok := v.X.(*ast.Ident); ok {
				if m := all[id.Name]; m != nil && m[v.Sel.Name] && !own[id.Name] {
					return true
				}
			}
			e = v.X
		case *ast.IndexExpr:
			e = v.X
		case *ast.StarExpr:
			e = v.X
		case *ast.ParenExpr:
			e = v.X
		case *ast.UnaryExpr:
			e = v.X
		default:
			return false
		}
	}
}

func heapLHS(e ast.Expr) bool {
	switch v := e.(type) {
	case *ast.SelectorExpr, *ast.IndexExpr, *ast.StarExpr:
		return true
	case *ast.ParenExpr:
		return heapLHS(v.X)
	}
	return false
}

func appendNN(dst []ast.Node, ns ...ast.Node) []ast.Node {
	for _, n := range ns {
		// absent parts are nil interfaces of type ast.Stmt / ast.Expr, which convert to a nil ast.Node
		if n != nil {
			dst = append(dst, n)
		}
	}
	return dst
}

// WriteSiteTable writes internal/zsimrt/sites_gen.go.
func WriteSiteTable(root string, res *Result, instrumented bool) error {
	var sb strings.Builder
	sb.WriteString("// Code generated by the C14 instrumenter. DO NOT EDIT.\n\npackage zsimrt\n\n")
	sb.WriteString("// Sites is indexed by the id passed to Y.\nvar Sites = []SiteInfo{\n")
	for _, s := range res.Sites {
		fmt.Fprintf(&sb, "\t{%q, %d, %d},\n", s.File, s.Line, s.Flags)
	}
	sb.WriteString("}\n\n")
	fmt.Fprintf(&sb, "// Instrumented is false in the degraded (uninstrumented) build.\nconst Instrumented = %v\n", instrumented)
	fmt.Fprintf(&sb, "\n// UsesSync: some library file imports package sync (rewritten to the cooperative shim).\nconst UsesSync = %v\n", res.UsesSync)
	fmt.Fprintf(&sb, "\n// UsesAtomic: some library file imports sync/atomic (rewritten to the zatomic shim).\nconst UsesAtomic = %v\n", res.UsesAtomic)
	fmt.Fprintf(&sb, "\n// UsesTime: some library file imports package time (rewritten to the ztime shim).\nconst UsesTime = %v\n", res.UsesTime)
	fmt.Fprintf(&sb, "\n// OwnsGo: the library has go statements and the simulator runs its goroutines as tasks (go.go, solo.go).\nconst OwnsGo = %v\n", instrumented && res.GoStmts > 0)
	return os.WriteFile(filepath.Join(root, "internal", "zsimrt", "sites_gen.go"), []byte(sb.String()), 0o644)
}
