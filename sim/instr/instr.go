// Package instr rewrites a scratch copy of the repository so that the C14
// simulator owns scheduling: it splices `zsimrt.Y(<site>); ` in front of every
// statement that sits in a statement list. Text is spliced (not re-printed) so
// that every comment, directive and line number stays what it is in /repo.
package instr

import (
	"fmt"
	"go/ast"
	"go/build"
	"go/importer"
	"go/parser"
	"go/token"
	"go/types"
	"os"
	"path/filepath"
	"sort"
	"strconv"
	"strings"
)

// Site is one inserted yield.
type Site struct {
	File  string `json:"file"`
	Line  int    `json:"line"`
	Flags uint8  `json:"flags"`
}

// Result describes what the instrumenter did and found.
type Result struct {
	Module   string   `json:"module"`
	Files    []string `json:"files"`
	Sites    []Site   `json:"-"`
	NumSites int      `json:"num_sites"`
	// ExitSites counts the function-exit yields (functions that defer something).
	ExitSites int  `json:"exit_sites"`
	Flagged   int  `json:"flagged_sites"`
	UsesSync  bool `json:"uses_sync"`
	// UsesTime: some library file imports package time (rewritten to the ztime shim: the simulator owns the clock).
	UsesTime bool `json:"uses_time"`
	// UsesAtomic: some library file imports sync/atomic (rewritten to the zatomic shim: every atomic operation is a yield).
	UsesAtomic bool `json:"uses_atomic"`
	// Unowned lists constructs the simulator cannot schedule (the library's own
	// goroutines, channel operations, select): they force the degraded mode.
	Unowned []string `json:"unowned,omitempty"`
	// MapRanges is the number of `range <map>` loops whose iteration order the
	// simulator took over; MapOrderOwned is false when type checking failed (then
	// Go's per-process random order remains and replays inside such loops are
	// only probabilistic).
	MapRanges     int    `json:"map_ranges_owned"`
	MapOrderOwned bool   `json:"map_order_owned"`
	TypeCheckNote string `json:"typecheck_note,omitempty"`
	// Notes lists imports through which the library could observe something
	// outside its arguments (clock, OS, network, random numbers). They do not stop
	// the simulation; if such a value reaches a result, O4/O5 report it.
	Notes []string `json:"notes,omitempty"`
}

const (
	flagGlobal    = 1
	flagHeapWrite = 2
	flagExit      = 4
	flagHotGlobal = 8 // the statement assigns to, or calls a method on, something rooted at a package-level variable
)

var skipDirs = map[string]bool{".git": true, "cmd": true, "fuzz": true, "vendor": true, "testdata": true, "zsim": true}

var unownedImports = map[string]bool{
	"time": true, "os": true, "net": true, "net/http": true, "context": true, "math/rand": true,
	"math/rand/v2": true, "os/exec": true, "os/signal": true, "syscall": true, "C": true, "io/ioutil": true,
	"crypto/rand": true,
}

// ModulePath reads the module path from root/go.mod.
func ModulePath(root string) (string, error) {
	b, err := os.ReadFile(filepath.Join(root, "go.mod"))
	if err != nil {
		return "", err
	}
	for _, ln := range strings.Split(string(b), "\n") {
		ln = strings.TrimSpace(ln)
		if strings.HasPrefix(ln, "module") {
			return strings.TrimSpace(strings.TrimPrefix(ln, "module")), nil
		}
	}
	return "", fmt.Errorf("no module line in go.mod")
}

// LibraryFiles lists the non-test Go files of the library packages under root.
func LibraryFiles(root string) ([]string, error) {
	var files []string
	err := filepath.Walk(root, func(p string, info os.FileInfo, err error) error {
		if err != nil {
			return err
		}
		rel, _ := filepath.Rel(root, p)
		if info.IsDir() {
			if rel == "." {
				return nil
			}
			if skipDirs[info.Name()] || strings.HasPrefix(info.Name(), ".") || strings.HasPrefix(info.Name(), "_") {
				return filepath.SkipDir
			}
			if rel == filepath.Join("internal", "zsimrt") || rel == filepath.Join("internal", "zsync") || rel == filepath.Join("internal", "zatomic") || rel == filepath.Join("internal", "ztime") {
				return filepath.SkipDir
			}
			if _, err := os.Stat(filepath.Join(p, "go.mod")); err == nil {
				return filepath.SkipDir // nested module
			}
			return nil
		}
		if strings.HasSuffix(p, ".go") && !strings.HasSuffix(p, "_test.go") {
			// honour build constraints (//go:build lines, _GOOS/_GOARCH suffixes): a file the
			// default build does not compile is neither instrumented nor type-checked
			if ok, err := build.Default.MatchFile(filepath.Dir(p), filepath.Base(p)); err == nil && !ok {
				return nil
			}
			files = append(files, rel)
		}
		return nil
	})
	sort.Strings(files)
	return files, err
}

type edit struct {
	off  int
	text string
	del  int // bytes to delete at off before inserting
}

// Instrument rewrites the library files under root in place. When plain is true
// no yields are inserted (only the scan for unowned constructs happens): that is
// the degraded mode's build.
func Instrument(root string, plain bool) (*Result, error) {
	mod, err := ModulePath(root)
	if err != nil {
		return nil, err
	}
	files, err := LibraryFiles(root)
	if err != nil {
		return nil, err
	}
	res := &Result{Module: mod, Files: files}
	fset := token.NewFileSet()
	parsed := map[string]*ast.File{}
	src := map[string][]byte{}
	// package-level variable names, keyed by package name
	pkgVars := map[string]map[string]bool{}
	for _, f := range files {
		b, err := os.ReadFile(filepath.Join(root, f))
		if err != nil {
			return nil, err
		}
		af, err := parser.ParseFile(fset, f, b, parser.ParseComments)
		if err != nil {
			return nil, fmt.Errorf("parse %s: %w", f, err)
		}
		parsed[f] = af
		src[f] = b
		m := pkgVars[af.Name.Name]
		if m == nil {
			m = map[string]bool{}
			pkgVars[af.Name.Name] = m
		}
		for _, d := range af.Decls {
			gd, ok := d.(*ast.GenDecl)
			if !ok || gd.Tok != token.VAR {
				continue
			}
			for _, sp := range gd.Specs {
				for _, n := range sp.(*ast.ValueSpec).Names {
					if n.Name != "_" {
						m[n.Name] = true
					}
				}
			}
		}
	}

	// type information (only used to recognise `range` over a map)
	mapRange := map[*ast.RangeStmt]bool{}
	if !plain {
		note := typeCheck(fset, mod, files, parsed, mapRange)
		res.TypeCheckNote = note
		res.MapOrderOwned = note == ""
	}

	for _, f := range files {
		af := parsed[f]
		b := src[f]
		tf := fset.File(af.Pos())
		var edits []edit
		own := pkgVars[af.Name.Name]

		// imports
		for _, im := range af.Imports {
			path, _ := strconv.Unquote(im.Path.Value)
			if unownedImports[path] {
				res.Notes = append(res.Notes, fmt.Sprintf("%s: import %q", f, path))
			}
			if path == "time" {
				res.UsesTime = true
				if !plain {
					off := tf.Offset(im.Path.Pos())
					repl := strconv.Quote(mod + "/internal/ztime")
					if im.Name == nil {
						repl = "time " + repl
					}
					edits = append(edits, edit{off: off, del: len(im.Path.Value), text: repl})
				}
			}
			if path == "sync/atomic" {
				res.UsesAtomic = true
				if !plain {
					off := tf.Offset(im.Path.Pos())
					repl := strconv.Quote(mod + "/internal/zatomic")
					if im.Name == nil {
						repl = "atomic " + repl
					}
					edits = append(edits, edit{off: off, del: len(im.Path.Value), text: repl})
				}
			}
			if path == "sync" {
				res.UsesSync = true
				if !plain {
					off := tf.Offset(im.Path.Pos())
					repl := strconv.Quote(mod + "/internal/zsync")
					if im.Name == nil {
						repl = "sync " + repl
					}
					edits = append(edits, edit{off: off, del: len(im.Path.Value), text: repl})
				}
			}
		}

		nSites := 0
		addSite := func(st ast.Stmt) {
			switch st.(type) {
			case *ast.CaseClause, *ast.CommClause:
				return
			}
			pos := fset.Position(st.Pos())
			fl := stmtFlags(st, own, pkgVars)
			id := len(res.Sites)
			res.Sites = append(res.Sites, Site{File: filepath.ToSlash(f), Line: pos.Line, Flags: fl})
			if fl != 0 {
				res.Flagged++
			}
			nSites++
			if !plain {
				edits = append(edits, edit{off: tf.Offset(st.Pos()), text: "zsimrt.Y(" + strconv.Itoa(id) + "); "})
			}
		}
		// exit yields: a function that defers something (a Put, an Unlock, a restore)
		// gets `defer zsimrt.Y(site)` as its FIRST deferred call, which therefore runs
		// LAST — after the function's own deferred calls and before control is back
		// in the caller. That is the window in which a returned value may still alias
		// state that the deferred call has just handed back.
		addExit := func(body *ast.BlockStmt) {
			if body == nil || plain || !hasDirectDefer(body) {
				return
			}
			pos := fset.Position(body.Rbrace)
			id := len(res.Sites)
			res.Sites = append(res.Sites, Site{File: filepath.ToSlash(f), Line: pos.Line, Flags: flagExit})
			res.Flagged++
			res.ExitSites++
			nSites++
			edits = append(edits, edit{off: tf.Offset(body.Lbrace) + 1, text: " defer zsimrt.Y(" + strconv.Itoa(id) + ");"})
		}
		ast.Inspect(af, func(n ast.Node) bool {
			switch v := n.(type) {
			case *ast.FuncDecl:
				addExit(v.Body)
			case *ast.FuncLit:
				addExit(v.Body)
			case *ast.BlockStmt:
				for _, st := range v.List {
					addSite(st)
				}
			case *ast.CaseClause:
				for _, st := range v.Body {
					addSite(st)
				}
			case *ast.CommClause:
				for _, st := range v.Body {
					addSite(st)
				}
			case *ast.RangeStmt:
				if mapRange[v] && !plain {
					res.MapRanges++
					edits = append(edits, edit{off: tf.Offset(v.X.Pos()), text: "zsimrt.MapSeq("})
					edits = append(edits, edit{off: tf.Offset(v.X.End()), text: ")"})
				}
			case *ast.CallExpr:
				// callbacks that the runtime runs on a goroutine of its own: the simulator cannot own them
				if sel, ok := v.Fun.(*ast.SelectorExpr); ok {
					if id, ok := sel.X.(*ast.Ident); ok {
						name := id.Name + "." + sel.Sel.Name
						switch name {
						case "runtime.SetFinalizer", "runtime.AddCleanup", "time.AfterFunc":
							res.Unowned = append(res.Unowned, fmt.Sprintf("%s:%d: %s (its callback runs on a goroutine of the runtime)", f, fset.Position(v.Pos()).Line, name))
						}
					}
				}
			case *ast.GoStmt:
				res.Unowned = append(res.Unowned, fmt.Sprintf("%s:%d: go statement", f, fset.Position(v.Pos()).Line))
			case *ast.SelectStmt:
				res.Unowned = append(res.Unowned, fmt.Sprintf("%s:%d: select", f, fset.Position(v.Pos()).Line))
			case *ast.SendStmt:
				res.Unowned = append(res.Unowned, fmt.Sprintf("%s:%d: channel send", f, fset.Position(v.Pos()).Line))
			case *ast.ChanType:
				res.Unowned = append(res.Unowned, fmt.Sprintf("%s:%d: channel type", f, fset.Position(v.Pos()).Line))
			case *ast.UnaryExpr:
				if v.Op == token.ARROW {
					res.Unowned = append(res.Unowned, fmt.Sprintf("%s:%d: channel receive", f, fset.Position(v.Pos()).Line))
				}
			}
			return true
		})

		if nSites > 0 && !plain {
			// `package x` -> `package x; import zsimrt "<mod>/internal/zsimrt"` on the same line
			off := tf.Offset(af.Name.End())
			edits = append(edits, edit{off: off, text: "; import zsimrt " + strconv.Quote(mod+"/internal/zsimrt")})
		}
		if len(edits) == 0 {
			continue
		}
		sort.SliceStable(edits, func(i, j int) bool { return edits[i].off < edits[j].off })
		var out []byte
		last := 0
		for _, e := range edits {
			out = append(out, b[last:e.off]...)
			out = append(out, e.text...)
			last = e.off + e.del
		}
		out = append(out, b[last:]...)
		if err := os.WriteFile(filepath.Join(root, f), out, 0o644); err != nil {
			return nil, err
		}
	}
	res.NumSites = len(res.Sites)
	return res, nil
}

// typeCheck type-checks the library packages (standard library from source, the
// library's own packages from the parsed files) and records which range
// statements iterate over a map. It returns "" on success, else why map order
// could not be taken over.
func typeCheck(fset *token.FileSet, mod string, files []string, parsed map[string]*ast.File, out map[*ast.RangeStmt]bool) (note string) {
	defer func() {
		if r := recover(); r != nil {
			note = fmt.Sprintf("type checker panicked: %v", r)
		}
	}()
	byDir := map[string][]*ast.File{}
	for _, f := range files {
		d := filepath.ToSlash(filepath.Dir(f))
		byDir[d] = append(byDir[d], parsed[f])
	}
	pathOf := func(dir string) string {
		if dir == "." {
			return mod
		}
		return mod + "/" + dir
	}
	dirOf := map[string]string{}
	for d := range byDir {
		dirOf[pathOf(d)] = d
	}
	std := importer.ForCompiler(fset, "source", nil)
	done := map[string]*types.Package{}
	var firstErr error
	var imp importerFunc
	var check func(path string) (*types.Package, error)
	check = func(path string) (*types.Package, error) {
		if p, ok := done[path]; ok {
			if p == nil {
				return nil, fmt.Errorf("import cycle through %s", path)
			}
			return p, nil
		}
		done[path] = nil
		info := &types.Info{Types: map[ast.Expr]types.TypeAndValue{}}
		conf := types.Config{Importer: imp, Error: func(err error) {
			if firstErr == nil {
				firstErr = err
			}
		}}
		p, _ := conf.Check(path, fset, byDir[dirOf[path]], info)
		done[path] = p
		for _, af := range byDir[dirOf[path]] {
			ast.Inspect(af, func(n ast.Node) bool {
				if rs, ok := n.(*ast.RangeStmt); ok {
					if tv, ok := info.Types[rs.X]; ok && tv.Type != nil {
						if _, isMap := tv.Type.Underlying().(*types.Map); isMap {
							out[rs] = true
						}
					}
				}
				return true
			})
		}
		return p, nil
	}
	imp = func(path string) (*types.Package, error) {
		if _, ok := dirOf[path]; ok {
			return check(path)
		}
		return std.Import(path)
	}
	for path := range dirOf {
		if _, err := check(path); err != nil {
			return err.Error()
		}
	}
	if firstErr != nil {
		return "type errors: " + firstErr.Error()
	}
	return ""
}

type importerFunc func(path string) (*types.Package, error)

func (f importerFunc) Import(path string) (*types.Package, error) { return f(path) }

// BumpGoVersion raises the scratch module's language version to 1.23 when it is
// lower (range-over-func, which MapSeq needs, is a go1.23 language feature).
func BumpGoVersion(root string) error {
	p := filepath.Join(root, "go.mod")
	b, err := os.ReadFile(p)
	if err != nil {
		return err
	}
	lines := strings.Split(string(b), "\n")
	for i, ln := range lines {
		t := strings.TrimSpace(ln)
		if strings.HasPrefix(t, "go ") {
			v := strings.TrimSpace(strings.TrimPrefix(t, "go "))
			parts := strings.Split(v, ".")
			if len(parts) >= 2 && parts[0] == "1" {
				if minor, err := strconv.Atoi(parts[1]); err == nil && minor < 23 {
					lines[i] = "go 1.23"
				}
			}
		}
	}
	return os.WriteFile(p, []byte(strings.Join(lines, "\n")), 0o644)
}

// stmtFlags computes the search-bias flags of one statement. For compound
// statements only the header is looked at: bodies have their own sites.
func stmtFlags(st ast.Stmt, own map[string]bool, all map[string]map[string]bool) uint8 {
	var fl uint8
	var nodes []ast.Node
	switch v := st.(type) {
	case *ast.IfStmt:
		nodes = appendNN(nodes, v.Init, v.Cond)
	case *ast.ForStmt:
		nodes = appendNN(nodes, v.Init, v.Cond, v.Post)
	case *ast.RangeStmt:
		nodes = appendNN(nodes, v.Key, v.Value, v.X)
	case *ast.SwitchStmt:
		nodes = appendNN(nodes, v.Init, v.Tag)
	case *ast.TypeSwitchStmt:
		nodes = appendNN(nodes, v.Init, v.Assign)
	case *ast.BlockStmt, *ast.SelectStmt:
	case *ast.LabeledStmt:
		return stmtFlags(v.Stmt, own, all)
	default:
		nodes = append(nodes, st)
	}
	for _, n := range nodes {
		ast.Inspect(n, func(x ast.Node) bool {
			switch e := x.(type) {
			case *ast.FuncLit:
				return false
			case *ast.Ident:
				if own[e.Name] {
					// not shadow-aware: a local of the same name only costs search bias
					fl |= flagGlobal
				}
			case *ast.SelectorExpr:
				if id, ok := e.X.(*ast.Ident); ok {
					if m := all[id.Name]; m != nil && m[e.Sel.Name] {
						fl |= flagGlobal
					}
				}
			case *ast.AssignStmt:
				for _, l := range e.Lhs {
					if heapLHS(l) {
						fl |= flagHeapWrite
					}
					if rootedAtGlobal(l, own, all) {
						fl |= flagHotGlobal
					}
				}
			case *ast.IncDecStmt:
				if heapLHS(e.X) {
					fl |= flagHeapWrite
				}
				if rootedAtGlobal(e.X, own, all) {
					fl |= flagHotGlobal
				}
			case *ast.CallExpr:
				if id, ok := e.Fun.(*ast.Ident); ok && (id.Name == "append" || id.Name == "copy" || id.Name == "delete" || id.Name == "clear") {
					fl |= flagHeapWrite
					if (id.Name == "delete" || id.Name == "clear" || id.Name == "copy") && len(e.Args) > 0 && rootedAtGlobal(e.Args[0], own, all) {
						fl |= flagHotGlobal
					}
				}
				// a method call on (a field of) a package-level variable: pool.Get/Put, mu.Lock, buf.Write, cache.put ...
				if sel, ok := e.Fun.(*ast.SelectorExpr); ok && rootedAtGlobal(sel.X, own, all) {
					fl |= flagHotGlobal
				}
			}
			return true
		})
	}
	return fl
}

// hasDirectDefer reports whether the function body contains a defer statement of
// its own (not one inside a nested function literal).
func hasDirectDefer(body *ast.BlockStmt) bool {
	found := false
	ast.Inspect(body, func(n ast.Node) bool {
		switch n.(type) {
		case *ast.FuncLit:
			return false
		case *ast.DeferStmt:
			found = true
		}
		return !found
	})
	return found
}

// rootedAtGlobal: x, x.f, x[i], x.f[i].g, *x ... where x is a package-level variable of
// this package, or pkg.X with X a package-level variable of another library package.
func rootedAtGlobal(e ast.Expr, own map[string]bool, all map[string]map[string]bool) bool {
	for {
		switch v := e.(type) {
		case *ast.Ident:
			return own[v.Name]
		case *ast.SelectorExpr:
			if id, ok := v.X.(*ast.Ident); ok {
				if m := all[id.Name]; m != nil && m[v.Sel.Name] && !own[id.Name] {
					return true
				}
			}
			e = v.X
		case *ast.IndexExpr:
			e = v.X
		case *ast.StarExpr:
			e = v.X
		case *ast.ParenExpr:
			e = v.X
		case *ast.UnaryExpr:
			e = v.X
		default:
			return false
		}
	}
}

func heapLHS(e ast.Expr) bool {
	switch v := e.(type) {
	case *ast.SelectorExpr, *ast.IndexExpr, *ast.StarExpr:
		return true
	case *ast.ParenExpr:
		return heapLHS(v.X)
	}
	return false
}

func appendNN(dst []ast.Node, ns ...ast.Node) []ast.Node {
	for _, n := range ns {
		// absent parts are nil interfaces of type ast.Stmt / ast.Expr, which convert to a nil ast.Node
		if n != nil {
			dst = append(dst, n)
		}
	}
	return dst
}

// WriteSiteTable writes internal/zsimrt/sites_gen.go.
func WriteSiteTable(root string, res *Result, instrumented bool) error {
	var sb strings.Builder
	sb.WriteString("// Code generated by the C14 instrumenter. DO NOT EDIT.\n\npackage zsimrt\n\n")
	sb.WriteString("// Sites is indexed by the id passed to Y.\nvar Sites = []SiteInfo{\n")
	for _, s := range res.Sites {
		fmt.Fprintf(&sb, "\t{%q, %d, %d},\n", s.File, s.Line, s.Flags)
	}
	sb.WriteString("}\n\n")
	fmt.Fprintf(&sb, "// Instrumented is false in the degraded (uninstrumented) build.\nconst Instrumented = %v\n", instrumented)
	fmt.Fprintf(&sb, "\n// UsesSync: some library file imports package sync (rewritten to the cooperative shim).\nconst UsesSync = %v\n", res.UsesSync)
	fmt.Fprintf(&sb, "\n// UsesAtomic: some library file imports sync/atomic (rewritten to the zatomic shim).\nconst UsesAtomic = %v\n", res.UsesAtomic)
	fmt.Fprintf(&sb, "\n// UsesTime: some library file imports package time (rewritten to the ztime shim).\nconst UsesTime = %v\n", res.UsesTime)
	return os.WriteFile(filepath.Join(root, "internal", "zsimrt", "sites_gen.go"), []byte(sb.String()), 0o644)
}
