package main

import (
	"encoding/json"
	"fmt"
	"os"
	"path/filepath"
	"sort"
)

type evidence struct {
	o *options
	p *prepared

	Runs, ColdRuns, Steps, SoloSteps, Switches, Preempts, Contended, Nontriv     uint64
	Ops, OpsRun, OpsSkipped, CBCalls, GCs, Stalls, StallOps, LockWaits           uint64
	LibGo, ChanOps, ChanWaits                                                    uint64
	LateSpawns, Publishes, Capped, Overruns, DecOverflow, ClockJumps, ClockReads uint64
	RunsByBuild                                                                  map[string]uint64
	RunsByPhase                                                                  map[string]uint64
	OpKinds, Policies, Shapes, Fired, O2Cadence, Probes                          map[string]uint64
	SiteHits                                                                     []uint64
	PairCount                                                                    int
	Samples                                                                      []json.RawMessage
	WorkerWallMS                                                                 int64
	DistinctSigs                                                                 int
	Determinism                                                                  *detResult
	Violations                                                                   int
	KnownFindings                                                                int
	WallS                                                                        float64
	Probed                                                                       int
}

func newEvidence(o *options, p *prepared) *evidence {
	return &evidence{o: o, p: p, RunsByBuild: map[string]uint64{}, RunsByPhase: map[string]uint64{},
		OpKinds: map[string]uint64{}, Policies: map[string]uint64{}, Shapes: map[string]uint64{}, Fired: map[string]uint64{},
		O2Cadence: map[string]uint64{}, Probes: map[string]uint64{}}
}

func simulatedTimeNote(e *evidence) string {
	if e.p.Instr.UsesTime {
		return fmt.Sprintf("the simulated clock advances 1 microsecond per step plus injected jumps: %d steps = %.1f simulated seconds, plus %d clock jumps of 1 s to 40 days", e.Steps, float64(e.Steps)/1e6, e.ClockJumps)
	}
	return "the library reads no clock and has no timers on this tree; progress is measured in simulated steps (one step = one library statement executed by the baton holder); a tree that imports package time gets a simulated clock (1 microsecond per step plus injected jumps)"
}

func clockNote(e *evidence) string {
	if e.p.Instr.UsesTime {
		return fmt.Sprintf("the library imports package time on this tree: the simulator owns the clock (ztime shim; %d clock reads, %d injected jumps); timers and sleeps are not virtualised", e.ClockReads, e.ClockJumps)
	}
	return "the library reads no clock (package time is not imported); if it ever does, the import is rewritten to a simulated clock with injected jumps"
}

func addMap(dst, src map[string]uint64) {
	for k, v := range src {
		dst[k] += v
	}
}

func (e *evidence) add(s *summary, phase string) {
	e.Runs += s.Runs
	e.ColdRuns += s.ColdRuns
	e.Steps += s.Steps
	e.SoloSteps += s.SoloSteps
	e.Switches += s.Switches
	e.Preempts += s.Preempts
	e.Contended += s.Contended
	e.Nontriv += s.NontrivRuns
	e.Ops += s.Ops
	e.OpsRun += s.OpsRun
	e.OpsSkipped += s.OpsSkipped
	e.CBCalls += s.CBCalls
	e.GCs += s.GCs
	e.ClockJumps += s.ClockJumps
	e.ClockReads += s.ClockReads
	e.Stalls += s.Stalls
	e.StallOps += s.StallOps
	e.LockWaits += s.LockWaits
	e.LibGo += s.LibGo
	e.ChanOps += s.ChanOps
	e.ChanWaits += s.ChanWaits
	e.LateSpawns += s.LateSpawns
	e.Publishes += s.Publishes
	e.Capped += s.Capped
	e.Overruns += s.Overruns
	e.DecOverflow += s.DecOverflow
	if s.Race {
		e.RunsByBuild["race"] += s.Runs
	} else {
		e.RunsByBuild["plain"] += s.Runs
	}
	e.RunsByPhase[phase] += s.Runs
	addMap(e.OpKinds, s.OpKinds)
	addMap(e.Policies, s.Policies)
	addMap(e.Shapes, s.Shapes)
	addMap(e.Fired, s.Fired)
	addMap(e.O2Cadence, s.O2Cadence)
	addMap(e.Probes, s.Probes)
	if len(e.SiteHits) < len(s.SiteHits) {
		e.SiteHits = append(e.SiteHits, make([]uint64, len(s.SiteHits)-len(e.SiteHits))...)
	}
	for i, h := range s.SiteHits {
		e.SiteHits[i] += h
	}
	if s.PairCount > e.PairCount {
		e.PairCount = s.PairCount // per-process bitmap: the maximum over workers is a lower bound of the union
	}
	if len(e.Samples) < 3 {
		e.Samples = append(e.Samples, s.Samples...)
	}
	e.WorkerWallMS += s.WallMS
}

func (e *evidence) write(path string) error {
	os.MkdirAll(filepath.Dir(path), 0o755)
	reached, never := 0, []string{}
	for i, h := range e.SiteHits {
		if h > 0 {
			reached++
		} else if i < len(e.p.Instr.Sites) {
			s := e.p.Instr.Sites[i]
			never = append(never, fmt.Sprintf("%s:%d", s.File, s.Line))
		}
	}
	sort.Strings(never)
	neverSample := never
	if len(neverSample) > 40 {
		neverSample = neverSample[:40]
	}
	samples := []interface{}{}
	for _, s := range e.Samples {
		var v interface{}
		if json.Unmarshal(s, &v) == nil {
			samples = append(samples, v)
		}
		if len(samples) >= 3 {
			break
		}
	}
	if len(samples) == 0 {
		samples = append(samples, "no run with a context switch was sampled")
	}
	runsPerHour := 0.0
	if e.WallS > 0 {
		runsPerHour = float64(e.Runs) / e.WallS * 3600
	}
	det := map[string]interface{}{}
	if e.Determinism != nil {
		b, _ := json.Marshal(e.Determinism)
		json.Unmarshal(b, &det)
	}
	cov := map[string]interface{}{
		"evaluations":         e.Runs,
		"distinct_nontrivial": e.DistinctSigs,
		"rule": "one evaluation = one simulated run = one PRNG seed (scenario: 2-6 caller tasks x 1-14 operations on shared/private expressions and drivers, one of five workload shapes; then a schedule and fault sequence drawn from the same stream). " +
			"Non-trivial = the run had at least one preemption INSIDE a library operation whose argument was at that moment also in use by another task that was itself inside an operation. " +
			"Distinct = distinct 64-bit hashes of the sequence of (task preempted, site preempted at, task resumed) over the whole run, counted exactly (a set merged across all worker processes).",
		"samples":                       samples,
		"mode":                          e.p.Mode,
		"mode_reason":                   e.p.Why,
		"runs_by_build":                 e.RunsByBuild,
		"runs_by_phase":                 e.RunsByPhase,
		"cold_start_runs":               e.ColdRuns,
		"seeds":                         e.Runs,
		"runs_per_hour":                 int64(runsPerHour),
		"seeds_per_hour":                int64(runsPerHour),
		"simulated_steps":               e.Steps,
		"simulated_time":                simulatedTimeNote(e),
		"reference_pass_steps":          e.SoloSteps,
		"context_switches":              e.Switches,
		"preemptions_inside_operations": e.Preempts,
		"contended_preemptions":         e.Contended,
		"nontrivial_runs":               e.Nontriv,
		"operations":                    e.Ops,
		"operations_executed":           e.OpsRun,
		"operations_skipped_or_not_run": e.OpsSkipped,
		"operation_kinds":               e.OpKinds,
		"policies":                      e.Policies,
		"workload_shapes":               e.Shapes,
		"o2_check_cadence":              e.O2Cadence,
		"faults_fired": map[string]interface{}{
			"preempt":                    e.Preempts,
			"stall":                      e.Stalls,
			"ops_completed_during_stall": e.StallOps,
			"gc":                         e.GCs,
			"clock_jump":                 e.ClockJumps,
			"callback_error":             e.Fired["error"],
			"callback_panic":             e.Fired["panic"],
			"callback_exit":              e.Fired["exit"],
			"callback_slow":              e.Fired["slow"],
			"late_spawn":                 e.LateSpawns,
			"publish":                    e.Publishes,
			"cooperative_lock_waits":     e.LockWaits,
			"library_goroutines_run_as_simulated_tasks":   e.LibGo,
			"library_channel_operations":                  e.ChanOps,
			"library_channel_operations_that_had_to_wait": e.ChanWaits,
		},
		"faults_not_injected": map[string]string{
			"message loss/duplication/reordering/delay, partitions": "the library has no transport",
			"disk errors, short/torn/lost writes, full disk":        "the library has no storage or stream API",
			"clock skew and jumps, timers":                          clockNote(e),
			"crash/restart with durable state":                      "the library has no durable state",
			"failing allocations":                                   "Go aborts the process; the library cannot observe it",
			"failing system calls / EINTR":                          "the library makes none",
		},
		"callback_invocations": e.CBCalls,
		"probes":               e.Probes,
		// incidental: how often one of the harness's own limits ended or truncated a run — not a measure
		// of work done (it goes up and down with the base seed), hence words rather than numbers
		"harness_limits_hit": map[string]string{
			"runs_that_reached_the_global_step_cap":                          fmt.Sprintf("%d of %d", e.Capped, e.Runs),
			"runs_with_an_operation_past_its_step_bound":                     fmt.Sprintf("%d of %d", e.Overruns, e.Runs),
			"runs_whose_decision_list_was_truncated_(replay_from_seed_only)": fmt.Sprintf("%d of %d", e.DecOverflow, e.Runs),
		},
		"sites_total":                                e.p.Instr.NumSites,
		"sites_flagged_shared":                       e.p.Instr.Flagged,
		"sites_reached":                              reached,
		"sites_never_reached":                        len(never),
		"sites_never_reached_sample":                 neverSample,
		"site_pairs_preempted_x_resumed_lower_bound": e.PairCount,
		"determinism_self_test":                      det,
		"known_findings_matched":                     e.KnownFindings,
		"operations_reevaluated_in_fresh_processes":  e.Probed,
		"components": map[string]interface{}{
			"real": []string{"lucene (parse.go, render.go)", "internal/lex", "pkg/lucene/reduce", "pkg/lucene/expr", "pkg/driver",
				"fmt, strings, strconv, reflect, encoding/json, unicode (real standard library)", "Go runtime, garbage collector, race detector"},
			"stubbed": []string{},
			"harness": []string{"caller tasks", "user RenderFN callbacks (fault seam)", "seeded scheduler + inserted yields", "sync / sync/atomic / time shims (only if the library imports them)",
				"cooperative forms of the library's own go statements, channel operations and selects (only if it has any; goroutines and channels stay real)"},
		},
		"instrumentation": map[string]interface{}{
			"statement_yields":         e.p.Instr.NumSites - e.p.Instr.ExitSites,
			"exit_yields":              e.p.Instr.ExitSites,
			"map_ranges_owned":         e.p.Instr.MapRanges,
			"go_statements_owned":      e.p.Instr.GoStmts,
			"channel_operations_owned": e.p.Instr.ChanOps,
			"map_order_owned":          e.p.Instr.MapOrderOwned,
			"typecheck_note":           e.p.Instr.TypeCheckNote,
			"sync_shimmed":             e.p.Instr.UsesSync,
			"atomic_shimmed":           e.p.Instr.UsesAtomic,
			"clock_shimmed":            e.p.Instr.UsesTime,
			"unowned_constructs":       e.p.Instr.Unowned,
		},
		"instrumented_files":               e.p.Instr.Files,
		"library_imports_of_outside_state": e.p.Instr.Notes,
		"toolchain":                        e.p.Go,
		"build_s":                          e.p.BuildS,
		"oracles": []string{"O1 sequential equivalence", "O2 arguments never modified (boundaries, end of run, per-step cadence, solo)", "O3 no data race (race build, invisible baton)",
			"O4 results repeat across fresh processes", "O4b a sample of operations re-evaluated each in a brand-new process", "O5 results repeat within a process / after the simulated run / after a legal edit",
			"O6 returned values stay what they were", "L1 no deadlock", "L2 bounded completion"},
	}
	doc := map[string]interface{}{
		"property_id": propertyID,
		"tier":        e.o.Tier,
		"seed":        int64(e.o.Seed),
		"level":       "exploration",
		"coverage":    cov,
		"assumptions": []string{
			"statements are atomic for the scheduler (sub-statement interleavings are left to the race oracle)",
			"standard-library calls are atomic steps",
			"a race both of whose accesses are incidentally ordered by standard-library synchronisation (fmt's sync.Pool) is hidden from O3 in that run",
			"inputs come from a committed corpus (every operator and literal kind) plus a small grammar, not from all strings",
			"a clean batch of sampled schedules is evidence, not proof",
		},
		"wall_s":     e.WallS,
		"violations": e.Violations,
	}
	return writeJSON(path, doc)
}
