package main

import (
	"fmt"
	"strconv"
	"time"
)

// The determinism self-test runs the same run indices in several fresh
// processes — both build flavours, GOMAXPROCS 1, 4 and 16 — and compares, per
// run, the result digests and the schedule (path) signature.
//
//   - solo-result digest differs  -> O4 violation: a result depends on something
//     other than the arguments (the digest is a function of the scenario alone);
//   - full digest differs while the path is the same -> O4 violation as well;
//   - only the path differs -> replay determinism is degraded (recorded, not a
//     violation: C14 does not promise a deterministic instruction path);
//   - the scenario itself differs (steps of the solo pass, number of operations)
//     cannot happen unless the harness is broken -> exit 2.

type o4Mismatch struct {
	Run  uint64
	Seed uint64
	What string
}

type detResult struct {
	Seeds          int          `json:"seeds"`
	Processes      int          `json:"processes_per_seed"`
	Configs        []string     `json:"configs"`
	ResultMismatch int          `json:"result_mismatches"`
	PathMismatches int          `json:"path_mismatches"`
	Outcome        string       `json:"outcome"`
	WallS          float64      `json:"wall_s"`
	O4             []o4Mismatch `json:"-"`
	HarnessBroken  string       `json:"-"`
	results        []*workerResult
}

func determinismTest(o *options, p *prepared, seeds int) *detResult {
	t0 := time.Now()
	d := &detResult{Seeds: seeds}
	type cfg struct {
		bin  string
		race bool
		gmp  int
		name string
	}
	cfgs := []cfg{
		{p.BinPlain, false, 1, "plain/GOMAXPROCS=1"},
		{p.BinPlain, false, 4, "plain/GOMAXPROCS=4"},
		{p.BinPlain, false, 16, "plain/GOMAXPROCS=16"},
		{p.BinRace, true, 1, "race/GOMAXPROCS=1"},
		{p.BinRace, true, 4, "race/GOMAXPROCS=4"},
		{p.BinPlain, false, 1, "plain/GOMAXPROCS=1 (second process)"},
	}
	d.Processes = len(cfgs)
	var specs []workerSpec
	for _, c := range cfgs {
		d.Configs = append(d.Configs, c.name)
		specs = append(specs, workerSpec{Bin: c.bin, Race: c.race, GOMAXPROCS: c.gmp, Timeout: 4 * time.Minute,
			Args: []string{"-base", u(o.Seed), "-from", u(idxDeterminism), "-count", strconv.Itoa(seeds), "-digests", "-samples", "0"}})
	}
	rs := runWorkers(specs, o.Workers)
	d.results = rs
	ref := rs[0]
	if ref.Err != nil || len(ref.Runs) != seeds {
		d.HarnessBroken = fmt.Sprintf("reference process produced %d of %d runs (err=%v)", len(ref.Runs), seeds, ref.Err)
		d.Outcome = "not run"
		return d
	}
	for ci := 1; ci < len(rs); ci++ {
		r := rs[ci]
		if r.Err != nil || len(r.Runs) != seeds {
			if len(r.Viols) > 0 || len(r.Races) > 0 {
				continue // a violation stopped it early; reported through the normal path
			}
			d.HarnessBroken = fmt.Sprintf("%s produced %d of %d runs (err=%v)", cfgs[ci].name, len(r.Runs), seeds, r.Err)
			continue
		}
		for i := range r.Runs {
			a, b := ref.Runs[i], r.Runs[i]
			if a.Run != b.Run || a.Seed != b.Seed {
				d.HarnessBroken = "run order differs between processes"
				continue
			}
			samePath := a.PathSig == b.PathSig && a.Steps == b.Steps && a.NDec == b.NDec
			if !samePath {
				d.PathMismatches++
			}
			if a.RefDig != b.RefDig {
				d.ResultMismatch++
				d.O4 = append(d.O4, o4Mismatch{Run: a.Run, Seed: a.Seed,
					What: fmt.Sprintf("the same calls, run alone in two fresh processes (%s vs %s), gave different results (run index %d)", cfgs[0].name, cfgs[ci].name, a.Run)})
			} else if samePath && a.Digest != b.Digest {
				d.ResultMismatch++
				d.O4 = append(d.O4, o4Mismatch{Run: a.Run, Seed: a.Seed,
					What: fmt.Sprintf("the same schedule in two fresh processes (%s vs %s) gave different results (run index %d)", cfgs[0].name, cfgs[ci].name, a.Run)})
			}
		}
	}
	switch {
	case d.HarnessBroken != "":
		d.Outcome = "harness broken"
	case d.ResultMismatch > 0:
		d.Outcome = "results differ between processes (O4)"
	case d.PathMismatches > 0:
		d.Outcome = "replay determinism degraded: results agree but the instruction path differs between processes"
	default:
		d.Outcome = "identical digests, schedule signatures, step counts and decision counts in every process"
	}
	d.WallS = time.Since(t0).Seconds()
	return d
}
