package main

import (
	"bytes"
	"fmt"
	"io"
	"os"
	"os/exec"
	"path/filepath"
	"strings"
	"sync"
	"time"

	"verif/sim/instr"
)

// goEnv is the environment every go command runs with: offline, local toolchain,
// no workspace file (the repository's go.work would pull in ./fuzz and its
// dependencies).
func goEnv() []string {
	env := os.Environ()
	set := map[string]string{
		"GOFLAGS": "-mod=mod", "GOPROXY": "off", "GOSUMDB": "off", "GOTOOLCHAIN": "local", "GOWORK": "off",
		"CGO_ENABLED": "1",
	}
	var out []string
	for _, kv := range env {
		k := kv
		if i := strings.IndexByte(kv, '='); i >= 0 {
			k = kv[:i]
		}
		if _, ok := set[k]; ok {
			continue
		}
		out = append(out, kv)
	}
	for k, v := range set {
		out = append(out, k+"="+v)
	}
	return out
}

type prepared struct {
	Scratch  string
	Instr    *instr.Result
	BinPlain string
	BinRace  string
	Mode     string // "simulated" | "degraded"
	Why      string // why degraded
	BuildS   float64
	Go       string
}

func copyTree(src, dst string, skipTop map[string]bool) error {
	return filepath.Walk(src, func(p string, info os.FileInfo, err error) error {
		if err != nil {
			return err
		}
		rel, _ := filepath.Rel(src, p)
		if rel == "." {
			return os.MkdirAll(dst, 0o755)
		}
		top := strings.Split(rel, string(filepath.Separator))[0]
		if skipTop[top] {
			if info.IsDir() {
				return filepath.SkipDir
			}
			return nil
		}
		target := filepath.Join(dst, rel)
		switch {
		case info.IsDir():
			return os.MkdirAll(target, 0o755)
		case info.Mode()&os.ModeSymlink != 0:
			return nil
		case !info.Mode().IsRegular():
			return nil
		}
		in, err := os.Open(p)
		if err != nil {
			return err
		}
		defer in.Close()
		out, err := os.OpenFile(target, os.O_CREATE|os.O_WRONLY|os.O_TRUNC, 0o644)
		if err != nil {
			return err
		}
		if _, err := io.Copy(out, in); err != nil {
			out.Close()
			return err
		}
		return out.Close()
	})
}

const overlayModule = "github.com/grindlemire/go-lucene" // the module path the overlay sources are written against

// retargetOverlay rewrites the overlay's import paths when the repository's module
// path is not the one the overlay was written against (a fork, a v2 suffix).
func retargetOverlay(scratch string) error {
	mod, err := instr.ModulePath(scratch)
	if err != nil || mod == overlayModule {
		return err
	}
	for _, d := range []string{"zsim", "internal/zsimrt", "internal/zsync", "internal/zatomic", "internal/ztime"} {
		files, _ := filepath.Glob(filepath.Join(scratch, d, "*.go"))
		for _, f := range files {
			b, err := os.ReadFile(f)
			if err != nil {
				return err
			}
			nb := bytes.ReplaceAll(b, []byte(`"`+overlayModule+`/`), []byte(`"`+mod+`/`))
			nb = bytes.ReplaceAll(nb, []byte(`"`+overlayModule+`"`), []byte(`"`+mod+`"`))
			if !bytes.Equal(nb, b) {
				if err := os.WriteFile(f, nb, 0o644); err != nil {
					return err
				}
			}
		}
	}
	return nil
}

func goBuild(dir, out string, race bool) (string, error) {
	args := []string{"build", "-o", out}
	if race {
		args = append(args, "-race")
	}
	args = append(args, "./zsim")
	cmd := exec.Command("go", args...)
	cmd.Dir = dir
	cmd.Env = goEnv()
	var buf bytes.Buffer
	cmd.Stdout = &buf
	cmd.Stderr = &buf
	err := cmd.Run()
	return buf.String(), err
}

// prepare copies the repository's current working tree to a scratch directory,
// adds the simulator overlay, instruments the library and builds both flavours.
func prepare(repo, verifDir string, forcePlain bool) (*prepared, error) {
	t0 := time.Now()
	sweepStale()
	scratch, err := os.MkdirTemp("", "c14-")
	if err != nil {
		return nil, err
	}
	p := &prepared{Scratch: scratch, Mode: "simulated"}
	if err := copyTree(repo, scratch, map[string]bool{".git": true, "go.work": true, "go.work.sum": true}); err != nil {
		return p, fmt.Errorf("copy %s: %w", repo, err)
	}
	overlay := filepath.Join(verifDir, "sim", "overlay")
	if err := copyTree(overlay, scratch, map[string]bool{"go.mod": true}); err != nil {
		return p, fmt.Errorf("copy overlay: %w", err)
	}
	if err := retargetOverlay(scratch); err != nil {
		return p, fmt.Errorf("retarget overlay: %w", err)
	}
	if v, err := exec.Command("go", "version").Output(); err == nil {
		p.Go = strings.TrimSpace(string(v))
	}

	build := func(plainInstr bool) (string, error) {
		res, err := instr.Instrument(scratch, plainInstr)
		if err != nil {
			return "", fmt.Errorf("instrument: %w", err)
		}
		p.Instr = res
		if res.MapRanges > 0 || res.NeedsGo123 {
			if err := instr.BumpGoVersion(scratch); err != nil {
				return "", err
			}
		}
		if err := instr.WriteSiteTable(scratch, res, !plainInstr); err != nil {
			return "", err
		}
		p.BinPlain = filepath.Join(scratch, "bin", "zsim")
		p.BinRace = filepath.Join(scratch, "bin", "zsim-race")
		os.MkdirAll(filepath.Join(scratch, "bin"), 0o755)
		var wg sync.WaitGroup
		var o1, o2 string
		var e1, e2 error
		wg.Add(2)
		go func() { defer wg.Done(); o1, e1 = goBuild(scratch, p.BinPlain, false) }()
		go func() { defer wg.Done(); o2, e2 = goBuild(scratch, p.BinRace, true) }()
		wg.Wait()
		if e1 != nil {
			return o1, fmt.Errorf("go build: %w", e1)
		}
		if e2 != nil {
			return o2, fmt.Errorf("go build -race: %w", e2)
		}
		return "", nil
	}

	if !forcePlain {
		outp, err := build(false)
		if err == nil && len(p.Instr.Unowned) == 0 {
			p.BuildS = time.Since(t0).Seconds()
			return p, nil
		}
		if err != nil {
			p.Why = "instrumented copy did not build: " + firstLines(outp, 6)
		} else {
			p.Why = "library uses constructs the simulator does not own: " + strings.Join(p.Instr.Unowned, "; ")
		}
		// start over from a pristine copy for the degraded build
		os.RemoveAll(scratch)
		os.MkdirAll(scratch, 0o755)
		if err := copyTree(repo, scratch, map[string]bool{".git": true, "go.work": true, "go.work.sum": true}); err != nil {
			return p, err
		}
		if err := copyTree(overlay, scratch, map[string]bool{"go.mod": true}); err != nil {
			return p, err
		}
		if err := retargetOverlay(scratch); err != nil {
			return p, err
		}
	} else {
		p.Why = "forced"
	}
	p.Mode = "degraded"
	outp, err := build(true)
	if err != nil {
		return p, fmt.Errorf("%w\n%s", err, outp)
	}
	p.BuildS = time.Since(t0).Seconds()
	return p, nil
}

// sweepStale removes scratch copies that an earlier, killed run left behind.
func sweepStale() {
	old, _ := filepath.Glob(filepath.Join(os.TempDir(), "c14-*"))
	for _, d := range old {
		if fi, err := os.Stat(d); err == nil && fi.IsDir() && time.Since(fi.ModTime()) > 6*time.Hour {
			os.RemoveAll(d)
		}
	}
}

func firstLines(s string, n int) string {
	ls := strings.Split(strings.TrimSpace(s), "\n")
	if len(ls) > n {
		ls = ls[:n]
	}
	return strings.Join(ls, " | ")
}
