// Command c14 decides property C14 ("pure, deterministic and safe for concurrent
// use") by deterministic simulation: it copies /repo's working tree to a scratch
// directory, instruments it so that a seeded scheduler owns every interleaving of
// caller goroutines inside the library, and runs many seeded runs with injected
// faults under five oracles (see /verif/DESIGN.md §2–§4).
//
// Exit status: 0 the property held on everything explored; 1 a violation was found
// (a line "VIOLATION property=C14 replay=<path>" is printed); 2 infrastructure
// trouble (build failure of the harness itself, watchdog, harness bug) — never
// reported as a violation.
package main

import (
	"encoding/binary"
	"encoding/json"
	"flag"
	"fmt"
	"os"
	"os/signal"
	"path/filepath"
	"runtime"
	"sort"
	"strconv"
	"strings"
	"syscall"
	"time"
)

const propertyID = "C14"

type options struct {
	Tier     string
	Seed     uint64
	Repo     string
	VerifDir string
	Keep     bool
	Degraded bool
	BudgetS  float64
	Workers  int
}

func main() {
	var (
		tier     = flag.String("tier", envOr("VERIF_TIER", "quick"), "quick | thorough")
		replay   = flag.String("replay", "", "replay file to re-execute")
		keep     = flag.Bool("keep", false, "keep the scratch directory (debugging)")
		prepOnly = flag.Bool("prepare-only", false, "build the instrumented copy, print its path and stop (implies -keep)")
		degraded = flag.Bool("force-degraded", false, "use the uninstrumented build (testing the degraded mode)")
		budget   = flag.Float64("budget-s", 0, "exploration budget in seconds (default: per tier; env VERIF_BUDGET_S)")
		noEvid   = flag.Bool("no-evidence", false, "do not write the evidence file (sensitivity experiments)")
	)
	flag.Parse()
	o := &options{Tier: *tier, Repo: envOr("VERIF_REPO", "/repo"), VerifDir: envOr("VERIF_DIR", "/verif"),
		Keep: *keep || *prepOnly, Degraded: *degraded, BudgetS: *budget, Workers: runtime.NumCPU()}
	if o.Workers > 16 {
		o.Workers = 16
	}
	if o.Workers < 2 {
		o.Workers = 2
	}
	o.Seed = 20261002
	if s := os.Getenv("VERIF_SEED"); s != "" {
		if v, err := strconv.ParseUint(s, 10, 64); err == nil {
			o.Seed = v
		} else if v, err := strconv.ParseInt(s, 10, 64); err == nil {
			o.Seed = uint64(v)
		}
	}
	if o.BudgetS == 0 {
		if s := os.Getenv("VERIF_BUDGET_S"); s != "" {
			o.BudgetS, _ = strconv.ParseFloat(s, 64)
		}
	}
	if o.Tier != "quick" && o.Tier != "thorough" {
		fmt.Fprintln(os.Stderr, "c14: unknown tier", o.Tier)
		os.Exit(2)
	}
	fmt.Printf("c14: VERIF_SEED=%d tier=%s repo=%s\n", o.Seed, o.Tier, o.Repo)

	t0 := time.Now()
	p, err := prepare(o.Repo, o.VerifDir, o.Degraded)
	if p != nil && p.Scratch != "" && !o.Keep {
		defer os.RemoveAll(p.Scratch)
	}
	if err != nil {
		fmt.Fprintln(os.Stderr, "c14: cannot build the simulation harness:", err)
		if p != nil && p.Scratch != "" && !o.Keep {
			os.RemoveAll(p.Scratch)
		}
		os.Exit(2)
	}
	scratchRoot = p.Scratch
	if !o.Keep {
		// a terminated check leaves nothing behind
		sig := make(chan os.Signal, 1)
		signal.Notify(sig, os.Interrupt, syscall.SIGTERM)
		go func() {
			<-sig
			os.RemoveAll(p.Scratch)
			os.Exit(2)
		}()
	}
	fmt.Printf("c14: mode=%s sites=%d flagged=%d files=%d build=%.1fs %s\n", p.Mode, p.Instr.NumSites, p.Instr.Flagged, len(p.Instr.Files), p.BuildS, p.Go)
	if p.Mode == "degraded" {
		degradedMode = true
		defaultGOMAXPROCS = 4
		fmt.Printf("c14: DEGRADED MODE (%s): real goroutines under the race detector, failures not replayable\n", p.Why)
	}
	if *prepOnly {
		fmt.Printf("scratch=%s\n", p.Scratch)
		return
	}

	code := 0
	if *replay != "" {
		code = doReplay(o, p, *replay)
	} else {
		code = explore(o, p, t0, !*noEvid)
		if code == exitPoisoned && p.Mode != "degraded" {
			fmt.Printf("c14: the simulator cannot own this library's concurrency (%s): starting over in the degraded mode\n", poisonWhy)
			if !o.Keep {
				os.RemoveAll(p.Scratch)
			}
			p2, err := prepare(o.Repo, o.VerifDir, true)
			if err != nil {
				fmt.Fprintln(os.Stderr, "c14: cannot build the degraded harness:", err)
				if p2 != nil && p2.Scratch != "" {
					os.RemoveAll(p2.Scratch)
				}
				os.Exit(2)
			}
			p = p2
			p.Why = poisonWhy
			scratchRoot = p.Scratch
			degradedMode = true
			defaultGOMAXPROCS = 4
			fmt.Printf("c14: DEGRADED MODE (%s): real goroutines under the race detector, failures not replayable\n", p.Why)
			code = explore(o, p, time.Now(), !*noEvid)
		}
		if code == exitPoisoned {
			fmt.Fprintln(os.Stderr, "c14: the harness could not run this library:", poisonWhy)
			code = 2
		}
	}
	if !o.Keep {
		os.RemoveAll(p.Scratch)
	}
	os.Exit(code)
}

func envOr(k, d string) string {
	if v := os.Getenv(k); v != "" {
		return v
	}
	return d
}

// run index ranges (one index = one seed = one execution)
const (
	idxDeterminism = 0
	idxPlain       = 1_000_000
	idxRace        = 1_000_000_000
	idxCold        = 2_000_000_000
	idxColdRace    = 3_000_000_000
	idxGiant       = 4_000_000_000
	idxGiantRace   = 5_000_000_000
)

type tierPlan struct {
	DetSeeds    int
	PlainS      float64
	RaceS       float64
	ColdProcs   int // plain build
	ColdRace    int // race build (first-use races show only here; a cold process costs ~50 ms)
	ColdCount   int // runs per cold process
	MinimiseS   float64
	Probes      int     // operations sampled per plain worker for re-evaluation in fresh processes
	GiantS      float64 // giant-input phase, plain build
	GiantRaceS  float64 // ... race build (0: skipped)
	WorkerGrace time.Duration
}

// giantEveryFor: every n-th run index is a giant-input scenario (seconds per run
// instead of a millisecond, so they are rare in the quick tier).
func giantEveryFor(o *options) uint64 { return 0 } // bulk phases: none; the giant phase passes 1 explicitly

var degradedMode bool

// exitPoisoned is what explore returns when a worker found, at run time, that the
// simulator cannot own what the library does with goroutines or channels (a library
// goroutine that never finishes, a send on an unbuffered channel, ...). Nothing found
// so far is used; the whole check is run again in the degraded mode.
const exitPoisoned = 42

var poisonWhy string

func planFor(o *options) tierPlan {
	if o.Tier == "thorough" {
		b := o.BudgetS
		if b == 0 {
			b = 1500
		}
		return tierPlan{DetSeeds: 40, PlainS: b * 0.45, RaceS: b * 0.45, ColdProcs: 400, ColdRace: 2400, ColdCount: 4, MinimiseS: 180, Probes: 400, GiantS: b * 0.05, GiantRaceS: b * 0.04, WorkerGrace: 5 * time.Minute}
	}
	b := o.BudgetS
	if b == 0 {
		b = 34
	}
	return tierPlan{DetSeeds: 10, PlainS: b * 0.4, RaceS: b * 0.6, ColdProcs: 256, ColdRace: 512, ColdCount: 3, MinimiseS: 25, Probes: 100, GiantS: 4, WorkerGrace: 2 * time.Minute}
}

type finding struct {
	Sig   string
	Build string
	Run   uint64
	Seed  uint64
	Viol  *violation
	Rec   *violRec
	Race  *raceReport
	Phase string
	Cold  bool // the run was the first of its process and simulated before any other library use
	Hist  *history
	Probe *probe // O4b finding: the operation
}

func explore(o *options, p *prepared, t0 time.Time, writeEvidence bool) int {
	plan := planFor(o)
	if degradedMode {
		// real goroutines on real cores: every scenario is repeated, giants take seconds each
		plan.GiantS /= 2
		plan.GiantRaceS = 0
		plan.WorkerGrace = 6 * time.Minute
	}
	ev := newEvidence(o, p)
	var findings []finding
	var infra []string
	poisoned := ""

	collect := func(phase string, rs []*workerResult) {
		for _, r := range rs {
			if r.Sum != nil && r.Sum.Poison != "" && poisoned == "" {
				poisoned = r.Sum.Poison
			}
			if r.Err != nil {
				infra = append(infra, fmt.Sprintf("[%s] %v (exit %d)\n%s", phase, r.Err, r.ExitCode, tail(r.Stderr, 30)))
			}
			if r.Sum != nil {
				ev.add(r.Sum, phase)
			} else if r.Err == nil {
				infra = append(infra, fmt.Sprintf("[%s] worker produced no summary\n%s", phase, tail(r.Stderr, 30)))
			}
			for i := range r.Viols {
				v := &r.Viols[i]
				findings = append(findings, finding{Sig: v.Viol.sig(), Build: v.Build, Run: v.Run, Seed: v.Seed, Viol: v.Viol, Rec: v, Phase: phase})
			}
			for i := range r.Races {
				rr := &r.Races[i]
				if rr.HasLib {
					cold := phase == "cold" && rr.Run >= idxColdRace && (uint64(rr.Run)-idxColdRace)%uint64(plan.ColdCount) == 0
					findings = append(findings, finding{Sig: rr.Sig, Build: "race", Run: uint64(rr.Run), Seed: rr.Seed, Race: rr, Phase: phase, Cold: cold,
						Hist: historyOf(r.Spec, uint64(rr.Run))})
				} else {
					infra = append(infra, fmt.Sprintf("[%s] race report without a library frame (harness bug):\n%s", phase, rr.Text))
				}
			}
		}
	}

	// ---- phase 1: determinism self-test (and O4: results repeat across processes) ----
	det := determinismTest(o, p, plan.DetSeeds)
	ev.Determinism = det
	for _, r := range det.results {
		collect("determinism", []*workerResult{r})
	}
	if det.HarnessBroken != "" {
		infra = append(infra, "determinism self-test: "+det.HarnessBroken)
	}
	for _, m := range det.O4 {
		findings = append(findings, finding{Sig: "O4/", Build: "plain", Run: m.Run, Seed: m.Seed, Phase: "determinism",
			Viol: &violation{Oracle: "O4", Task: -1, Op: -1, What: m.What}})
	}
	fmt.Printf("c14: determinism self-test: %d seeds x %d processes, result mismatches=%d, path mismatches=%d (%.1fs)\n",
		det.Seeds, det.Processes, len(det.O4), det.PathMismatches, time.Since(t0).Seconds())
	if poisoned != "" {
		poisonWhy = poisoned
		return exitPoisoned
	}

	// ---- phase 2: cold-start processes (first use of the library happens inside a simulated run) ----
	var specs []workerSpec
	for i := 0; i < plan.ColdProcs; i++ {
		specs = append(specs, workerSpec{Bin: p.BinPlain, Args: []string{"-base", u(o.Seed), "-from", u(idxCold + uint64(i*plan.ColdCount)), "-count", strconv.Itoa(plan.ColdCount), "-cold-first", "-samples", "0",
			"-sigs", filepath.Join(p.Scratch, fmt.Sprintf("sigs-cold-%d.bin", i%64))}, Timeout: plan.WorkerGrace})
	}
	for i := 0; i < plan.ColdRace; i++ {
		specs = append(specs, workerSpec{Bin: p.BinRace, Race: true, Args: []string{"-base", u(o.Seed), "-from", u(idxColdRace + uint64(i*plan.ColdCount)), "-count", strconv.Itoa(plan.ColdCount), "-cold-first", "-samples", "0",
			"-sigs", filepath.Join(p.Scratch, fmt.Sprintf("sigs-coldr-%d.bin", i%64))}, Timeout: plan.WorkerGrace})
	}
	tc := time.Now()
	collect("cold", runWorkers(specs, o.Workers))
	fmt.Printf("c14: cold-start: %d processes (%.1fs)\n", len(specs), time.Since(tc).Seconds())

	// ---- phase 2b: giant inputs (seconds per run instead of a millisecond: a phase and a budget of their own) ----
	if len(findings) == 0 && plan.GiantS > 0 {
		specs = nil
		for w := 0; w < o.Workers; w++ {
			specs = append(specs, workerSpec{Bin: p.BinPlain, Args: []string{"-base", u(o.Seed), "-from", u(idxGiant + uint64(w)), "-stride", strconv.Itoa(o.Workers),
				"-budget-ms", strconv.Itoa(int(plan.GiantS * 1000)), "-samples", "0", "-giant-every", "1", "-sigs", filepath.Join(p.Scratch, fmt.Sprintf("sigs-giant-%d.bin", w))},
				Timeout: time.Duration(plan.GiantS*float64(time.Second)) + plan.WorkerGrace})
			if plan.GiantRaceS > 0 {
				specs = append(specs, workerSpec{Bin: p.BinRace, Race: true, Args: []string{"-base", u(o.Seed), "-from", u(idxGiantRace + uint64(w)), "-stride", strconv.Itoa(o.Workers),
					"-budget-ms", strconv.Itoa(int(plan.GiantRaceS * 1000)), "-samples", "0", "-giant-every", "1", "-sigs", filepath.Join(p.Scratch, fmt.Sprintf("sigs-giantr-%d.bin", w))},
					Timeout: time.Duration(plan.GiantRaceS*float64(time.Second)) + plan.WorkerGrace})
			}
		}
		tg := time.Now()
		collect("giant", runWorkers(specs, o.Workers))
		fmt.Printf("c14: giant inputs: %d runs (%.1fs)\n", ev.RunsByPhase["giant"], time.Since(tg).Seconds())
	}

	// ---- phase 3: bulk exploration, plain build then race build, 16 workers each ----
	if len(findings) == 0 {
		specs = nil
		for w := 0; w < o.Workers; w++ {
			specs = append(specs, workerSpec{Bin: p.BinPlain, Args: []string{"-base", u(o.Seed), "-from", u(idxPlain + uint64(w)), "-stride", strconv.Itoa(o.Workers),
				"-budget-ms", strconv.Itoa(int(plan.PlainS * 1000)), "-samples", "1", "-giant-every", u(giantEveryFor(o)), "-probes", strconv.Itoa(plan.Probes), "-sigs", filepath.Join(p.Scratch, fmt.Sprintf("sigs-plain-%d.bin", w))},
				Timeout: time.Duration(plan.PlainS*float64(time.Second)) + plan.WorkerGrace})
		}
		tp := time.Now()
		plainRes := runWorkers(specs, o.Workers)
		collect("plain", plainRes)
		fmt.Printf("c14: plain build: %d runs so far (%.1fs)\n", ev.Runs, time.Since(tp).Seconds())
		if len(findings) == 0 {
			tq := time.Now()
			n, bad := freshProcessProbes(o, p, plainRes)
			ev.Probed = n
			for _, b := range bad {
				findings = append(findings, b)
			}
			fmt.Printf("c14: fresh-process probes: %d operations re-evaluated each in a brand-new process, %d differ (%.1fs)\n", n, len(bad), time.Since(tq).Seconds())
		}
	}
	if len(findings) == 0 {
		specs = nil
		for w := 0; w < o.Workers; w++ {
			specs = append(specs, workerSpec{Bin: p.BinRace, Race: true, Args: []string{"-base", u(o.Seed), "-from", u(idxRace + uint64(w)), "-stride", strconv.Itoa(o.Workers),
				"-budget-ms", strconv.Itoa(int(plan.RaceS * 1000)), "-samples", "1", "-giant-every", u(giantEveryFor(o)), "-sigs", filepath.Join(p.Scratch, fmt.Sprintf("sigs-race-%d.bin", w))},
				Timeout: time.Duration(plan.RaceS*float64(time.Second)) + plan.WorkerGrace})
		}
		tr := time.Now()
		collect("race", runWorkers(specs, o.Workers))
		fmt.Printf("c14: race build: %d runs so far (%.1fs)\n", ev.Runs, time.Since(tr).Seconds())
	}

	if poisoned != "" {
		poisonWhy = poisoned
		return exitPoisoned
	}
	ev.DistinctSigs = countSigs(p.Scratch)

	// ---- verdict ----
	known := loadKnown(filepath.Join(o.VerifDir, "known_findings.jsonl"))
	var fresh []finding
	knownPrinted := map[string]bool{}
	for _, f := range findings {
		if k := known.match(&f); k != nil {
			if !knownPrinted[k.ID] {
				knownPrinted[k.ID] = true
				fmt.Printf("KNOWN-FINDING: property=%s %s\n", propertyID, k.What)
			}
			continue
		}
		fresh = append(fresh, f)
	}
	code := 0
	ev.Violations = len(fresh)
	ev.KnownFindings = len(knownPrinted)
	if len(fresh) > 0 {
		sort.SliceStable(fresh, func(i, j int) bool {
			// prefer value oracles over race reports (their replay is exact), then low run index
			if (fresh[i].Race == nil) != (fresh[j].Race == nil) {
				return fresh[i].Race == nil
			}
			return fresh[i].Run < fresh[j].Run
		})
		seen := map[string]bool{}
		for _, f := range fresh {
			if seen[f.Sig] {
				continue
			}
			seen[f.Sig] = true
			if len(seen) > 3 {
				break
			}
			path := report(o, p, &f, plan.MinimiseS)
			fmt.Printf("VIOLATION property=%s replay=%s\n", propertyID, path)
		}
		code = 1
	}
	if len(infra) > 0 && code == 0 {
		for _, s := range infra {
			fmt.Fprintln(os.Stderr, "c14: INFRASTRUCTURE:", s)
		}
		code = 2
	}
	ev.WallS = time.Since(t0).Seconds()
	if writeEvidence {
		if err := ev.write(filepath.Join(o.VerifDir, "evidence", propertyID+".json")); err != nil {
			fmt.Fprintln(os.Stderr, "c14: evidence:", err)
			if code == 0 {
				code = 2
			}
		}
	}
	fmt.Printf("c14: runs=%d steps=%d switches=%d distinct_nontrivial_schedules=%d violations=%d wall=%.1fs exit=%d\n",
		ev.Runs, ev.Steps, ev.Switches, ev.DistinctSigs, len(fresh), ev.WallS, code)
	return code
}

// freshProcessProbes re-evaluates the operations the plain workers sampled, each in a
// brand-new process that does nothing else (oracle O4b, see overlay/zsim/run.go).
func freshProcessProbes(o *options, p *prepared, rs []*workerResult) (int, []finding) {
	seen := map[string]bool{}
	owner := map[string]*history{} // which worker (and how many runs of it) produced the answer
	var ps []probe
	for _, r := range rs {
		if r.Sum == nil {
			continue
		}
		h := historyOf(r.Spec, r.Sum.Last)
		if h != nil {
			h.Count++ // include the last run itself
		}
		for _, pr := range r.Sum.FreshProbes {
			k := string(pr.Op)
			if !seen[k] {
				seen[k] = true
				ps = append(ps, pr)
				owner[k] = h
			}
		}
	}
	var specs []workerSpec
	var files []string
	for i, pr := range ps {
		f := filepath.Join(p.Scratch, fmt.Sprintf("probe-%d.json", i))
		b, _ := json.Marshal(pr)
		if os.WriteFile(f, b, 0o644) != nil {
			continue
		}
		files = append(files, f)
		specs = append(specs, workerSpec{Bin: p.BinPlain, Args: []string{"-probe", f}, Timeout: 2 * time.Minute})
	}
	out := runWorkers(specs, o.Workers)
	var bad []finding
	for i, r := range out {
		os.Remove(files[i])
		if r.ProbeRes == nil || r.Err != nil {
			continue // a probe that could not be evaluated proves nothing
		}
		if strings.HasPrefix(*r.ProbeRes, "abort:") {
			continue // the brand-new process ran into one of the harness's own limits (step cap, task slots): no result to compare
		}
		if *r.ProbeRes != ps[i].Res {
			var op struct {
				Kind string `json:"kind"`
			}
			json.Unmarshal(ps[i].Op, &op)
			pr := ps[i]
			bad = append(bad, finding{Sig: "O4/" + op.Kind, Build: "plain", Phase: "probes", Probe: &pr, Run: 9_000_000_000 + uint64(i), Hist: owner[string(ps[i].Op)],
				Viol: &violation{Oracle: "O4", Task: -1, Op: -1, Kind: op.Kind,
					What: "the same call gives one result in a worker process that had made other calls before and another in a brand-new process: the result depends on process history. operation: " + string(ps[i].Op),
					Want: *r.ProbeRes, Got: ps[i].Res}})
		}
	}
	return len(ps), bad
}

// historyOf reconstructs, from a worker's command line, which runs it executed before run.
func historyOf(ws workerSpec, run uint64) *history {
	h := &history{Stride: 1}
	for i := 0; i+1 < len(ws.Args); i++ {
		switch ws.Args[i] {
		case "-from":
			h.From, _ = strconv.ParseUint(ws.Args[i+1], 10, 64)
		case "-stride":
			h.Stride, _ = strconv.ParseUint(ws.Args[i+1], 10, 64)
		}
	}
	for _, a := range ws.Args {
		if a == "-cold-first" {
			h.ColdFirst = true
		}
	}
	if h.Stride == 0 || run < h.From {
		return nil
	}
	h.Count = (run - h.From) / h.Stride
	return h
}

func u(x uint64) string { return strconv.FormatUint(x, 10) }

func tail(s string, n int) string {
	ls := strings.Split(strings.TrimRight(s, "\n"), "\n")
	if len(ls) > n {
		ls = ls[len(ls)-n:]
	}
	return strings.Join(ls, "\n")
}

func countSigs(dir string) int {
	set := map[uint64]struct{}{}
	files, _ := filepath.Glob(filepath.Join(dir, "sigs-*.bin"))
	for _, f := range files {
		b, err := os.ReadFile(f)
		if err != nil {
			continue
		}
		for i := 0; i+8 <= len(b); i += 8 {
			set[binary.LittleEndian.Uint64(b[i:])] = struct{}{}
		}
	}
	return len(set)
}

// ---- known findings ------------------------------------------------------------

type knownFinding struct {
	ID       string `json:"id"`
	Property string `json:"property"`
	Status   string `json:"status"` // "known" suppresses; "fixed" suppresses nothing
	Oracle   string `json:"oracle"`
	Kind     string `json:"kind,omitempty"`
	Contains string `json:"contains,omitempty"` // substring of the failing operation's query / race signature
	What     string `json:"what"`
}

type knownSet []knownFinding

func loadKnown(path string) knownSet {
	b, err := os.ReadFile(path)
	if err != nil {
		return nil
	}
	var ks knownSet
	for _, ln := range strings.Split(string(b), "\n") {
		ln = strings.TrimSpace(ln)
		if ln == "" || ln[0] == '#' {
			continue
		}
		var k knownFinding
		if json.Unmarshal([]byte(ln), &k) == nil && k.Property == propertyID && k.Status == "known" {
			ks = append(ks, k)
		}
	}
	return ks
}

func (ks knownSet) match(f *finding) *knownFinding {
	for i := range ks {
		k := &ks[i]
		if f.Viol != nil {
			if k.Oracle != f.Viol.Oracle || (k.Kind != "" && k.Kind != f.Viol.Kind) {
				continue
			}
			if k.Contains != "" {
				q := ""
				if f.Rec != nil {
					q = opQuery(f.Rec.Scenario, f.Viol.Task, f.Viol.Op)
				}
				if !strings.Contains(q, k.Contains) {
					continue
				}
			}
			return k
		}
		if f.Race != nil && k.Oracle == "O3" && k.Contains != "" && strings.Contains(f.Race.Sig, k.Contains) {
			return k
		}
	}
	return nil
}

func opQuery(sc map[string]interface{}, task, op int) string {
	tasks, _ := sc["tasks"].([]interface{})
	if task < 0 || task >= len(tasks) {
		return ""
	}
	ops, _ := tasks[task].([]interface{})
	if op < 0 || op >= len(ops) {
		return ""
	}
	b, _ := json.Marshal(ops[op])
	return string(b)
}
