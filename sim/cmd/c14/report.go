package main

import (
	"encoding/json"
	"fmt"
	"os"
	"path/filepath"
	"strings"
	"time"
)

// replayFile mirrors overlay/zsim.ReplayFile. The scenario is kept as generic
// JSON so that the minimiser can edit it without sharing types with the worker.
type replayFile struct {
	Property   string                 `json:"property"`
	Base       uint64                 `json:"base_seed"`
	Run        uint64                 `json:"run"`
	Seed       uint64                 `json:"seed"`
	Build      string                 `json:"build"`
	Scenario   map[string]interface{} `json:"scenario"`
	Decisions  []decision             `json:"decisions"`
	Violation  *violation             `json:"violation,omitempty"`
	History    *history               `json:"history,omitempty"`
	GiantEvery uint64                 `json:"giant_every,omitempty"`
	Probe      *probe                 `json:"probe,omitempty"`
	ProbeWant  string                 `json:"probe_want,omitempty"`
	Signature  string                 `json:"signature"`
	RaceSig    string                 `json:"race_signature,omitempty"`
	RaceText   string                 `json:"race_report,omitempty"`
	Minimised  bool                   `json:"minimised"`
	Note       string                 `json:"note,omitempty"`
	Repro      string                 `json:"reproduce,omitempty"`
	Stats      map[string]int         `json:"minimisation,omitempty"`
}

// annotate fills in the source position of every recorded preemption.
func annotate(p *prepared, dec []decision) {
	special := map[uint32]string{0xFFFFFFF0: "(operation begins)", 0xFFFFFFF1: "(between operations)", 0xFFFFFFF2: "(inside a user RenderFN callback)",
		0xFFFFFFF3: "(waiting for a lock)", 0xFFFFFFF4: "(task ended)", 0xFFFFFFF6: "(lock released / about to be taken)", 0xFFFFFFF7: "(before an atomic operation)"}
	for i := range dec {
		d := &dec[i]
		if d.Kind != 0 || d.Step == 0 {
			continue
		}
		if s, ok := special[d.At]; ok {
			d.Src = s
		} else if int(d.At) < len(p.Instr.Sites) {
			st := p.Instr.Sites[d.At]
			d.Src = fmt.Sprintf("%s:%d", st.File, st.Line)
		}
	}
}

// describe prints a minimised execution in a form a developer can read.
func describe(rf *replayFile) {
	rows := opsOf(rf.Scenario)
	sh, _ := rf.Scenario["shared"].([]interface{})
	for i, s := range sh {
		if m, ok := s.(map[string]interface{}); ok {
			fmt.Printf("c14:     shared #%d = %v %.120q field=%v\n", i, m["kind"], fmt.Sprint(m["query"]), m["field"])
		}
	}
	for t, row := range rows {
		if len(row) == 0 {
			continue
		}
		fmt.Printf("c14:     task %d:", t)
		for _, op := range row {
			arg := ""
			if v, ok := jsonInt(op["shared"]); ok && v >= 0 {
				arg = fmt.Sprintf("shared #%d", v)
			} else if q, ok := op["query"].(string); ok {
				arg = fmt.Sprintf("%.80q", q)
			} else if pv, ok := op["priv"].(map[string]interface{}); ok {
				arg = fmt.Sprintf("private %v %.60q", pv["kind"], fmt.Sprint(pv["query"]))
			}
			fmt.Printf(" %v(%s);", op["kind"], arg)
		}
		fmt.Println()
	}
	n := 0
	for _, d := range rf.Decisions {
		if d.Kind == 0 && d.Step > 0 && n < 12 {
			who := fmt.Sprintf("task %d", d.Task)
			if int(d.Task) >= len(rows) {
				who = fmt.Sprintf("a goroutine the library started (task slot %d)", d.Task)
			}
			fmt.Printf("c14:     step %d: switch to %s, preempting at %s\n", d.Step, who, d.Src)
			n++
		}
		if d.Kind == 3 && n < 12 {
			fmt.Printf("c14:     step %d: the select entered by task slot %d tries its case number %d first\n", d.Step, d.Task, d.V)
			n++
		}
	}
}

func writeJSON(path string, v interface{}) error {
	b, err := json.MarshalIndent(v, "", " ")
	if err != nil {
		return err
	}
	return os.WriteFile(path, append(b, '\n'), 0o644)
}

// tryReplay executes one explicit execution in a fresh process and reports
// whether the wanted signature shows up.
func tryReplay(p *prepared, rf *replayFile, wantSig string, attempts int) (bool, *violRec, *raceReport) {
	if rf.Probe != nil {
		// O4b: what a brand-new process answers is recomputed on the tree under test, never
		// taken from the file (the file may have been written against another tree)
		pf := filepath.Join(p.Scratch, fmt.Sprintf("probe-replay-%d.json", time.Now().UnixNano()))
		b, _ := json.Marshal(rf.Probe)
		if os.WriteFile(pf, b, 0o644) != nil {
			return false, nil, nil
		}
		r := runWorker(workerSpec{Bin: p.BinPlain, Args: []string{"-probe", pf}, Timeout: 2 * time.Minute})
		os.Remove(pf)
		if r.ProbeRes == nil || strings.HasPrefix(*r.ProbeRes, "abort:") {
			return false, nil, nil
		}
		c := *rf
		c.ProbeWant = *r.ProbeRes
		rf = &c
	}
	tmp := filepath.Join(p.Scratch, fmt.Sprintf("cand-%d.json", time.Now().UnixNano()))
	if err := writeJSON(tmp, rf); err != nil {
		return false, nil, nil
	}
	defer os.Remove(tmp)
	bin, race := p.BinPlain, false
	if rf.Build == "race" {
		bin, race = p.BinRace, true
	}
	for a := 0; a < attempts; a++ {
		r := runWorker(workerSpec{Bin: bin, Race: race, Args: []string{"-replay", tmp}, Timeout: 2 * time.Minute})
		for i := range r.Viols {
			if r.Viols[i].Viol.sig() == wantSig {
				return true, &r.Viols[i], nil
			}
		}
		for i := range r.Races {
			if r.Races[i].HasLib && r.Races[i].Sig == wantSig {
				return true, nil, &r.Races[i]
			}
		}
	}
	return false, nil, nil
}

// report turns a finding into a verified, minimised replay file and returns its path.
func report(o *options, p *prepared, f *finding, budgetS float64) string {
	dir := filepath.Join(o.VerifDir, "replays")
	os.MkdirAll(dir, 0o755)
	path := filepath.Join(dir, fmt.Sprintf("%s-%d-%d.json", propertyID, o.Seed, f.Run))
	rf := &replayFile{Property: propertyID, Base: o.Seed, Run: f.Run, Seed: f.Seed, Build: f.Build, Signature: f.Sig, Violation: f.Viol, GiantEvery: giantEveryOf(f)}
	rf.Repro = fmt.Sprintf("cd %s && ./check %s --replay %s", o.VerifDir, propertyID, path)
	if f.Race != nil {
		rf.RaceSig = f.Race.Sig
		rf.RaceText = f.Race.Text
		rf.Violation = &violation{Oracle: "O3", Task: -1, Op: -1, What: "data race reported by the race detector under a fully serialised seeded schedule: " + f.Race.Sig}
	}
	fmt.Printf("c14: violation %s in run %d (seed %d, %s build, phase %s)\n", f.Sig, f.Run, f.Seed, f.Build, f.Phase)
	if f.Viol != nil {
		fmt.Printf("c14:   %s: %s\n", f.Viol.Oracle, f.Viol.What)
		if f.Viol.Want != "" || f.Viol.Got != "" {
			fmt.Printf("c14:   want %.300s\nc14:   got  %.300s\n", f.Viol.Want, f.Viol.Got)
		}
	}
	if f.Race != nil {
		fmt.Printf("c14:   %s\n", firstLines(f.Race.Text, 12))
	}
	if f.Probe != nil && p.Mode != "degraded" {
		return reportProbe(o, p, f, rf, path, budgetS)
	}
	if p.Mode == "degraded" || f.Oracle() == "O4" {
		rf.Note = "not replayable as an explicit schedule (degraded mode or cross-process oracle): re-run the check with the same VERIF_SEED"
		writeJSON(path, rf)
		return path
	}

	// 1. obtain the explicit execution (scenario + decision list)
	var hist *history
	if f.Rec != nil {
		hist = f.Rec.Hist
		rf.Scenario = f.Rec.Scenario
		if !f.Rec.Overflow {
			rf.Decisions = f.Rec.Decisions
		}
	} else {
		// a race report carries no scenario: re-run the seed to get it
		rf.Scenario = map[string]interface{}{"cold": f.Cold}
		rec := regenerate(o, p, f)
		if rec != nil {
			rf.Scenario = rec.Scenario
			if !rec.Overflow {
				rf.Decisions = rec.Decisions
			}
		}
		hist = f.Hist
	}

	// 2. verify the explicit execution reproduces the violation in a fresh process
	attempts := 1
	if f.Race != nil {
		attempts = 4 // sync.Pool inside fmt drops entries at random under -race: edges vary between processes
	}
	explicitOK := false
	if rf.Decisions != nil && rf.Scenario != nil {
		explicitOK, _, _ = tryReplay(p, rf, f.Sig, attempts)
		if !explicitOK && hist != nil && hist.Count > 0 {
			// the run may depend on library state accumulated by the runs the same worker
			// process executed before it: replay those first, then find the shortest
			// suffix of that history which still reproduces the violation
			rf.History = hist
			if ok, _, _ := tryReplay(p, rf, f.Sig, attempts); ok {
				explicitOK = true
				for keep := uint64(1); keep < hist.Count; keep *= 2 {
					h := *hist
					h.From = hist.From + (hist.Count-keep)*hist.Stride
					h.Count = keep
					h.ColdFirst = false
					rf.History = &h
					if ok, _, _ := tryReplay(p, rf, f.Sig, attempts); ok {
						break
					}
					rf.History = hist
				}
				rf.Note = fmt.Sprintf("depends on library state left behind by earlier runs of the same process: the replay first re-executes %d earlier run(s)", rf.History.Count)
			} else {
				rf.History = nil
			}
		}
	}
	if !explicitOK {
		// fall back to the seed: the worker regenerates scenario and schedule from it
		keepDec := rf.Decisions
		rf.Decisions = nil
		ok, _, _ := tryReplay(p, rf, f.Sig, attempts)
		if ok {
			rf.Note = "replays from the seed (the explicit decision list did not reproduce it)"
		} else {
			rf.Decisions = keepDec
			rf.Note = "did not reproduce in a fresh process on the first attempts: the result depends on something outside the schedule (map order, pool state); --replay retries"
		}
		writeJSON(path, rf)
		return path
	}

	// 3. minimise
	deadline := time.Now().Add(time.Duration(budgetS * float64(time.Second)))
	st := minimise(p, rf, f.Sig, attempts, deadline)
	rf.Minimised = true
	rf.Stats = st
	if ok, v, rr := tryReplay(p, rf, f.Sig, attempts+2); ok {
		if v != nil {
			rf.Violation = v.Viol
		}
		if rr != nil {
			rf.RaceText = rr.Text
		}
	}
	annotate(p, rf.Decisions)
	writeJSON(path, rf)
	describe(rf)
	nOps := 0
	if ts, ok := rf.Scenario["tasks"].([]interface{}); ok {
		for _, t := range ts {
			if ops, ok := t.([]interface{}); ok {
				nOps += len(ops)
			}
		}
	}
	fmt.Printf("c14:   minimised to %d operations, %d decisions (%d candidates tried)\n", nOps, len(rf.Decisions), st["candidates"])
	return path
}

// reportProbe turns an O4b finding (a worker's answer differs from a brand-new process's)
// into a replay file: the worker's history of runs, shrunk to the shortest suffix that
// still bends the answer, followed by the operation.
func reportProbe(o *options, p *prepared, f *finding, rf *replayFile, path string, budgetS float64) string {
	rf.Probe = f.Probe
	rf.ProbeWant = f.Viol.Want
	rf.History = f.Hist
	rf.Build = "plain"
	deadline := time.Now().Add(time.Duration(budgetS * float64(time.Second)))
	ok, _, _ := tryReplay(p, rf, f.Sig, 1)
	if !ok {
		rf.Note = "the worker's whole history did not reproduce the difference in a fresh process: the answer depends on something else than the recorded calls (timing, memory state)"
		writeJSON(path, rf)
		return path
	}
	full := *f.Hist
	best := full
	for keep := uint64(1); keep < full.Count && time.Now().Before(deadline); keep *= 4 {
		h := full
		h.From = full.From + (full.Count-keep)*full.Stride
		h.Count = keep
		h.ColdFirst = false
		rf.History = &h
		if ok, _, _ := tryReplay(p, rf, f.Sig, 1); ok {
			best = h
			break
		}
	}
	rf.History = &best
	rf.Minimised = true
	rf.Note = fmt.Sprintf("replays by re-executing %d earlier run(s) of the worker and then the operation alone; a brand-new process answers probe_want", best.Count)
	writeJSON(path, rf)
	fmt.Printf("c14:   reproduced with a history of %d earlier runs (of %d)\n", best.Count, full.Count)
	return path
}

// giantEveryOf: the scenario generation parameter the finding's worker ran with.
func giantEveryOf(f *finding) uint64 {
	if f.Phase == "giant" {
		return 1
	}
	return 0
}

func (f *finding) Oracle() string {
	if f.Viol != nil {
		return f.Viol.Oracle
	}
	return "O3"
}

// regenerate re-runs one run index in the race build to obtain the explicit
// execution (scenario and decision list) of a run that only produced a race report.
func regenerate(o *options, p *prepared, f *finding) *violRec {
	args := []string{"-base", u(o.Seed), "-from", u(f.Run), "-count", "1", "-samples", "0", "-execs", "-giant-every", u(giantEveryOf(f))}
	if f.Cold {
		args = append(args, "-cold-first")
	}
	r := runWorker(workerSpec{Bin: p.BinRace, Race: true, Args: args, Timeout: 2 * time.Minute})
	if len(r.Execs) == 0 {
		return nil
	}
	return &r.Execs[0]
}

// ---- minimisation ----------------------------------------------------------------

func cloneJSON(v interface{}) interface{} {
	b, _ := json.Marshal(v)
	var out interface{}
	unmarshalNum(b, &out)
	return out
}

func minimise(p *prepared, rf *replayFile, sig string, attempts int, deadline time.Time) map[string]int {
	st := map[string]int{}
	try := func(sc map[string]interface{}, dec []decision) bool {
		if time.Now().After(deadline) {
			return false
		}
		st["candidates"]++
		c := *rf
		c.Scenario = sc
		c.Decisions = dec
		ok, _, _ := tryReplay(p, &c, sig, attempts)
		if ok {
			st["accepted"]++
		}
		return ok
	}
	tasksOf := func(sc map[string]interface{}) []interface{} {
		ts, _ := sc["tasks"].([]interface{})
		return ts
	}

	// a. empty whole tasks
	for t := len(tasksOf(rf.Scenario)) - 1; t >= 0; t-- {
		ts := tasksOf(rf.Scenario)
		if ops, _ := ts[t].([]interface{}); len(ops) == 0 {
			continue
		}
		sc := cloneJSON(rf.Scenario).(map[string]interface{})
		tasksOf(sc)[t] = []interface{}{}
		delete(sc, "ref_order")
		if try(sc, rf.Decisions) {
			rf.Scenario = sc
		}
	}
	// b. drop single operations
	for t := len(tasksOf(rf.Scenario)) - 1; t >= 0; t-- {
		ops, _ := tasksOf(rf.Scenario)[t].([]interface{})
		for i := len(ops) - 1; i >= 0; i-- {
			sc := cloneJSON(rf.Scenario).(map[string]interface{})
			cur, _ := tasksOf(sc)[t].([]interface{})
			if i >= len(cur) {
				continue
			}
			cur = append(cur[:i:i], cur[i+1:]...)
			tasksOf(sc)[t] = cur
			delete(sc, "ref_order")
			if try(sc, rf.Decisions) {
				rf.Scenario = sc
			}
		}
	}
	// c. switch off optional extras
	for _, k := range []string{"gc_permil", "stall_permil"} {
		sc := cloneJSON(rf.Scenario).(map[string]interface{})
		if sched, ok := sc["sched"].(map[string]interface{}); ok {
			if _, has := sched[k]; has {
				delete(sched, k)
				if try(sc, rf.Decisions) {
					rf.Scenario = sc
				}
			}
		}
	}
	// d. delta-debug the decision list (keep the step-0 decision that names the first task)
	dec := rf.Decisions
	n := 2
	for len(dec) > 1 && time.Now().Before(deadline) {
		chunk := (len(dec) + n - 1) / n
		reduced := false
		for start := 0; start < len(dec); start += chunk {
			end := start + chunk
			if end > len(dec) {
				end = len(dec)
			}
			cand := append(append([]decision{}, dec[:start]...), dec[end:]...)
			if len(cand) == len(dec) {
				continue
			}
			if try(rf.Scenario, cand) {
				dec = cand
				if n > 2 {
					n--
				}
				reduced = true
				break
			}
		}
		if !reduced {
			if chunk <= 1 {
				break
			}
			n *= 2
			if n > len(dec) {
				n = len(dec)
			}
		}
	}
	rf.Decisions = dec
	// e. shrink the query strings; f. drop empty tasks and unused shared expressions
	shrinkQueries(rf, try, deadline)
	compact(rf, try)
	return st
}

// doReplay re-executes a replay file against the current /repo.
func doReplay(o *options, p *prepared, path string) int {
	b, err := os.ReadFile(path)
	if err != nil {
		fmt.Fprintln(os.Stderr, "c14:", err)
		return 2
	}
	var rf replayFile
	if err := unmarshalNum(b, &rf); err != nil {
		fmt.Fprintln(os.Stderr, "c14: bad replay file:", err)
		return 2
	}
	if rf.Scenario == nil && rf.Probe == nil {
		fmt.Printf("c14: %s carries no explicit execution (%s)\n", path, rf.Note)
		return 2
	}
	attempts := 1
	if rf.Build == "race" {
		attempts = 6
	}
	if rf.Note != "" && rf.Decisions != nil && !rf.Minimised {
		attempts = 200 // probabilistic replay (schedule-independent nondeterminism)
	}
	ok, v, rr := tryReplay(p, &rf, rf.Signature, attempts)
	if !ok {
		fmt.Printf("c14: replay of %s did NOT reproduce %s on the current tree\n", path, rf.Signature)
		return 0
	}
	fmt.Printf("c14: replay reproduced %s\n", rf.Signature)
	if v != nil {
		fmt.Printf("c14:   %s: %s\nc14:   want %.400s\nc14:   got  %.400s\n", v.Viol.Oracle, v.Viol.What, v.Viol.Want, v.Viol.Got)
	}
	if rr != nil {
		fmt.Println(rr.Text)
	}
	fmt.Printf("VIOLATION property=%s replay=%s\n", propertyID, path)
	return 1
}
