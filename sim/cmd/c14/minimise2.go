package main

import (
	"sort"
	"strings"
	"time"
)

// ---- minimisation, part 2: shrink the inputs, then compact the scenario ---------

func opsOf(sc map[string]interface{}) [][]map[string]interface{} {
	var out [][]map[string]interface{}
	ts, _ := sc["tasks"].([]interface{})
	for _, t := range ts {
		var row []map[string]interface{}
		ops, _ := t.([]interface{})
		for _, o := range ops {
			if m, ok := o.(map[string]interface{}); ok {
				row = append(row, m)
			}
		}
		out = append(out, row)
	}
	return out
}

// queryHolders returns every map that carries a Lucene query string under "query".
func queryHolders(sc map[string]interface{}) []map[string]interface{} {
	var hs []map[string]interface{}
	for _, row := range opsOf(sc) {
		for _, op := range row {
			switch op["kind"] {
			case "parse", "topg", "toparam":
				hs = append(hs, op)
			}
			if pv, ok := op["priv"].(map[string]interface{}); ok {
				if k, _ := pv["kind"].(string); k == "parse" {
					hs = append(hs, pv)
				}
			}
		}
	}
	if sh, ok := sc["shared"].([]interface{}); ok {
		for _, s := range sh {
			if m, ok := s.(map[string]interface{}); ok {
				if k, _ := m["kind"].(string); k == "parse" {
					hs = append(hs, m)
				}
			}
		}
	}
	return hs
}

func replaceQuery(sc map[string]interface{}, old, new string) {
	for _, h := range queryHolders(sc) {
		if q, _ := h["query"].(string); q == old {
			h["query"] = new
		}
	}
}

// shrinkQueries delta-debugs every distinct query string of the scenario at token
// level (all occurrences of one string are replaced together, so that a hot query
// used by several operations stays one query).
func shrinkQueries(rf *replayFile, try func(map[string]interface{}, []decision) bool, deadline time.Time) {
	seen := map[string]bool{}
	var qs []string
	for _, h := range queryHolders(rf.Scenario) {
		if q, _ := h["query"].(string); q != "" && !seen[q] {
			seen[q] = true
			qs = append(qs, q)
		}
	}
	sort.Slice(qs, func(i, j int) bool { return len(qs[i]) > len(qs[j]) })
	for _, q := range qs {
		cur := q
		toks := strings.Fields(cur)
		n := 2
		tries := 0
		for len(toks) > 1 && tries < 24 && time.Now().Before(deadline) {
			chunk := (len(toks) + n - 1) / n
			reduced := false
			for start := 0; start < len(toks) && tries < 24; start += chunk {
				end := start + chunk
				if end > len(toks) {
					end = len(toks)
				}
				cand := strings.Join(append(append([]string{}, toks[:start]...), toks[end:]...), " ")
				if cand == "" || cand == cur {
					continue
				}
				sc := cloneJSON(rf.Scenario).(map[string]interface{})
				replaceQuery(sc, cur, cand)
				tries++
				if try(sc, rf.Decisions) {
					rf.Scenario = sc
					cur = cand
					toks = strings.Fields(cur)
					if n > 2 {
						n--
					}
					reduced = true
					break
				}
			}
			if !reduced {
				if chunk <= 1 {
					break
				}
				n *= 2
				if n > len(toks) {
					n = len(toks)
				}
			}
		}
	}
}

// compact removes tasks without operations and shared expressions nobody uses,
// renumbering everything that refers to them. Purely cosmetic: kept only if the
// compacted execution still reproduces the violation.
func compact(rf *replayFile, try func(map[string]interface{}, []decision) bool) {
	sc := cloneJSON(rf.Scenario).(map[string]interface{})
	ts, _ := sc["tasks"].([]interface{})
	taskMap := map[int]int{}
	var newTasks []interface{}
	for t, row := range ts {
		if ops, _ := row.([]interface{}); len(ops) > 0 {
			taskMap[t] = len(newTasks)
			newTasks = append(newTasks, row)
		}
	}
	if len(newTasks) == 0 {
		return
	}
	// shared usage
	used := map[int]bool{}
	for _, row := range newTasks {
		for _, o := range row.([]interface{}) {
			if m, ok := o.(map[string]interface{}); ok {
				if v, ok := jsonInt(m["shared"]); ok && v >= 0 {
					used[v] = true
				}
			}
		}
	}
	sh, _ := sc["shared"].([]interface{})
	shMap := map[int]int{}
	var newShared []interface{}
	for i, s := range sh {
		if used[i] {
			shMap[i] = len(newShared)
			newShared = append(newShared, s)
		}
	}
	if len(newTasks) == len(ts) && len(newShared) == len(sh) {
		return
	}
	// rewrite operations
	for ti, row := range newTasks {
		var ops []interface{}
		for _, o := range row.([]interface{}) {
			m, ok := o.(map[string]interface{})
			if !ok {
				continue
			}
			if v, ok := jsonInt(m["shared"]); ok && v >= 0 {
				m["shared"] = shMap[v]
			}
			if m["kind"] == "spawn" {
				tg, _ := jsonInt(m["target"])
				nt, ok := taskMap[tg]
				if !ok {
					continue // the spawned task has no operations left
				}
				m["target"] = nt
			}
			ops = append(ops, m)
		}
		newTasks[ti] = ops
	}
	sc["tasks"] = newTasks
	sc["shared"] = newShared
	if late, ok := sc["late"].([]interface{}); ok {
		nl := make([]interface{}, len(newTasks))
		for i := range nl {
			nl[i] = false
		}
		for old, nw := range taskMap {
			if old < len(late) {
				nl[nw] = late[old]
			}
		}
		sc["late"] = nl
	}
	if sched, ok := sc["sched"].(map[string]interface{}); ok {
		if a, ok := jsonInt(sched["single_a"]); ok {
			if nw, ok := taskMap[a]; ok {
				sched["single_a"] = nw
			} else {
				delete(sched, "single_a")
			}
		}
	}
	delete(sc, "ref_order")
	var dec []decision
	for _, d := range rf.Decisions {
		if d.Kind != 0 {
			dec = append(dec, d)
			continue
		}
		if nw, ok := taskMap[int(d.Task)]; ok {
			d.Task = int32(nw)
			dec = append(dec, d)
		}
	}
	if try(sc, dec) {
		rf.Scenario = sc
		rf.Decisions = dec
	}
}

func jsonInt(v interface{}) (int, bool) {
	switch x := v.(type) {
	case float64:
		return int(x), true
	case int:
		return x, true
	case interface{ Int64() (int64, error) }:
		n, err := x.Int64()
		return int(n), err == nil
	}
	return 0, false
}
