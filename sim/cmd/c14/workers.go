package main

import (
	"bufio"
	"bytes"
	"encoding/json"
	"fmt"
	"os"
	"os/exec"
	"regexp"
	"sort"
	"strconv"
	"strings"
	"sync"
	"time"
)

// ---- records emitted by the worker (mirrors overlay/zsim/main.go) --------------

type decision struct {
	Step uint64 `json:"s"`
	Task int32  `json:"t"`
	Kind uint8  `json:"k,omitempty"`
	V    int64  `json:"v,omitempty"`
	At   uint32 `json:"at,omitempty"`
	Src  string `json:"at_src,omitempty"` // file:line of the statement the preempted task was about to execute (added by the orchestrator)
}

type violation struct {
	Oracle string `json:"oracle"`
	Task   int    `json:"task"`
	Op     int    `json:"op"`
	Kind   string `json:"kind,omitempty"`
	What   string `json:"what"`
	Want   string `json:"want,omitempty"`
	Got    string `json:"got,omitempty"`
	Step   uint64 `json:"step,omitempty"`
	Site   string `json:"site,omitempty"`
}

func (v *violation) sig() string { return v.Oracle + "/" + v.Kind }

// probe mirrors overlay/zsim.Probe: one self-contained operation and the result a
// worker's solo pass gave for it.
type probe struct {
	Op  json.RawMessage `json:"op"`
	Res string          `json:"res"`
}

type history struct {
	From      uint64 `json:"from"`
	Stride    uint64 `json:"stride"`
	Count     uint64 `json:"count"`
	ColdFirst bool   `json:"cold_first,omitempty"`
}

type violRec struct {
	T         string                 `json:"t"`
	Hist      *history               `json:"history,omitempty"`
	Run       uint64                 `json:"run"`
	Seed      uint64                 `json:"seed"`
	Viol      *violation             `json:"viol"`
	Scenario  map[string]interface{} `json:"scenario"`
	Decisions []decision             `json:"decisions"`
	Overflow  bool                   `json:"decision_overflow,omitempty"`
	Build     string                 `json:"-"`
	RaceSig   string                 `json:"-"`
	RaceText  string                 `json:"-"`
}

type runRec struct {
	T       string `json:"t"`
	Run     uint64 `json:"run"`
	Seed    uint64 `json:"seed"`
	Digest  uint64 `json:"digest"`
	RefDig  uint64 `json:"refdigest"`
	PathSig uint64 `json:"pathsig"`
	Steps   uint64 `json:"steps"`
	NDec    int    `json:"ndec"`
}

type summary struct {
	T           string            `json:"t"`
	Race        bool              `json:"race"`
	Runs        uint64            `json:"runs"`
	ColdRuns    uint64            `json:"cold_runs"`
	Violations  int               `json:"violations"`
	Steps       uint64            `json:"steps"`
	SoloSteps   uint64            `json:"solo_steps"`
	Switches    uint64            `json:"switches"`
	Preempts    uint64            `json:"preempts"`
	Contended   uint64            `json:"contended_preempts"`
	NontrivRuns uint64            `json:"nontrivial_runs"`
	DistinctSig int               `json:"distinct_sigs_worker"`
	Ops         uint64            `json:"ops"`
	OpsRun      uint64            `json:"ops_run"`
	OpsSkipped  uint64            `json:"ops_skipped"`
	OpKinds     map[string]uint64 `json:"op_kinds"`
	Policies    map[string]uint64 `json:"policies"`
	Shapes      map[string]uint64 `json:"shapes"`
	Fired       map[string]uint64 `json:"faults_fired"`
	CBCalls     uint64            `json:"callback_calls"`
	GCs         uint64            `json:"gcs"`
	ClockJumps  uint64            `json:"clock_jumps"`
	ClockReads  uint64            `json:"clock_reads"`
	Stalls      uint64            `json:"stalls"`
	StallOps    uint64            `json:"ops_completed_during_stall"`
	LockWaits   uint64            `json:"lock_waits"`
	LibGo       uint64            `json:"library_goroutines"`
	ChanOps     uint64            `json:"channel_ops"`
	ChanWaits   uint64            `json:"channel_waits"`
	Poison      string            `json:"poison,omitempty"`
	LateSpawns  uint64            `json:"late_spawns"`
	Publishes   uint64            `json:"publishes"`
	Capped      uint64            `json:"capped_runs"`
	Overruns    uint64            `json:"overrun_runs"`
	DecOverflow uint64            `json:"decision_overflow_runs"`
	O2Cadence   map[string]uint64 `json:"o2_cadence"`
	Probes      map[string]uint64 `json:"probes"`
	SiteHits    []uint64          `json:"site_hits"`
	PairCount   int               `json:"site_pairs"`
	Samples     []json.RawMessage `json:"samples"`
	FreshProbes []probe           `json:"fresh_probes,omitempty"`
	WallMS      int64             `json:"wall_ms"`
	First       uint64            `json:"first_run"`
	Last        uint64            `json:"last_run"`
}

// ---- one worker process --------------------------------------------------------

type workerSpec struct {
	Bin        string
	Race       bool
	Args       []string
	GOMAXPROCS int
	Timeout    time.Duration
}

type workerResult struct {
	Spec     workerSpec
	Sum      *summary
	Runs     []runRec
	ProbeRes *string // -probe mode: the result computed in this fresh process
	Viols    []violRec
	Execs    []violRec
	Races    []raceReport
	ExitCode int
	Err      error  // infrastructure trouble (crash, timeout, unparsable output)
	Stderr   string // tail, for diagnostics
}

func runWorker(ws workerSpec) *workerResult {
	res := &workerResult{Spec: ws}
	cmd := exec.Command(ws.Bin, ws.Args...)
	env := []string{}
	for _, kv := range os.Environ() {
		if strings.HasPrefix(kv, "GOMAXPROCS=") || strings.HasPrefix(kv, "GORACE=") || strings.HasPrefix(kv, "GOGC=") || strings.HasPrefix(kv, "GODEBUG=") {
			continue
		}
		env = append(env, kv)
	}
	gmp := ws.GOMAXPROCS
	if gmp == 0 {
		gmp = defaultGOMAXPROCS
	}
	env = append(env, "GOMAXPROCS="+strconv.Itoa(gmp), "GORACE=halt_on_error=0 history_size=5 atexit_sleep_ms=0")
	cmd.Env = env
	var stdout, stderr bytes.Buffer
	cmd.Stdout = &stdout
	cmd.Stderr = &stderr
	if err := cmd.Start(); err != nil {
		res.Err = err
		return res
	}
	done := make(chan error, 1)
	go func() { done <- cmd.Wait() }()
	timeout := ws.Timeout
	if timeout == 0 {
		timeout = 10 * time.Minute
	}
	var werr error
	select {
	case werr = <-done:
	case <-time.After(timeout):
		cmd.Process.Kill()
		<-done
		res.Err = fmt.Errorf("worker timed out after %v (watchdog)", timeout)
	}
	if cmd.ProcessState != nil {
		res.ExitCode = cmd.ProcessState.ExitCode()
	}
	se := stderr.String()
	if len(se) > 6000 {
		res.Stderr = se[len(se)-6000:]
	} else {
		res.Stderr = se
	}
	// stdout: JSON lines
	sc := bufio.NewScanner(&stdout)
	sc.Buffer(make([]byte, 1<<20), 1<<28)
	for sc.Scan() {
		line := sc.Bytes()
		if len(line) == 0 {
			continue
		}
		var head struct {
			T string `json:"t"`
		}
		if err := json.Unmarshal(line, &head); err != nil {
			if res.Err == nil {
				res.Err = fmt.Errorf("unparsable worker output: %.200s", line)
			}
			continue
		}
		switch head.T {
		case "run":
			var r runRec
			json.Unmarshal(line, &r)
			res.Runs = append(res.Runs, r)
		case "viol":
			var v violRec
			if err := unmarshalNum(line, &v); err == nil {
				if ws.Race {
					v.Build = "race"
				} else {
					v.Build = "plain"
				}
				res.Viols = append(res.Viols, v)
			}
		case "exec":
			var v violRec
			if err := unmarshalNum(line, &v); err == nil {
				res.Execs = append(res.Execs, v)
			}
		case "probe":
			var pr struct {
				Res string `json:"res"`
			}
			if json.Unmarshal(line, &pr) == nil {
				res.ProbeRes = &pr.Res
			}
		case "sum":
			var s summary
			if err := json.Unmarshal(line, &s); err == nil {
				res.Sum = &s
			}
		}
	}
	if ws.Race {
		res.Races = parseRaces(se)
	}
	if res.Err == nil && werr != nil {
		// exit status 66 = the race detector reported something; anything else is a crash
		if !(ws.Race && res.ExitCode == 66) {
			res.Err = fmt.Errorf("worker exited with %v", werr)
		}
	}
	return res
}

// unmarshalNum decodes JSON keeping numbers exact (seeds are 64-bit).
func unmarshalNum(b []byte, v interface{}) error {
	d := json.NewDecoder(bytes.NewReader(b))
	d.UseNumber()
	return d.Decode(v)
}

// runWorkers runs the given workers with at most par at a time.
func runWorkers(specs []workerSpec, par int) []*workerResult {
	out := make([]*workerResult, len(specs))
	sem := make(chan struct{}, par)
	var wg sync.WaitGroup
	for i := range specs {
		wg.Add(1)
		go func(i int) {
			defer wg.Done()
			sem <- struct{}{}
			defer func() { <-sem }()
			out[i] = runWorker(specs[i])
		}(i)
	}
	wg.Wait()
	return out
}

// ---- race reports --------------------------------------------------------------

type raceReport struct {
	Run      int64 // run index the report was printed in (-1: outside any run)
	Seed     uint64
	Text     string
	LibA     string // top-most library frame of the first access ("" if none)
	LibB     string // ... of the second access
	HasLib   bool
	Sig      string
	Accesses [2]string
}

var (
	frameFileRE = regexp.MustCompile(`^\s+(/\S+\.go):(\d+)`)
	runMarkRE   = regexp.MustCompile(`^@@RUN (\d+) (\d+)`)
)

// parseRaces splits a race-build worker's stderr into reports and attributes each
// to the run whose @@RUN marker precedes it.
func parseRaces(stderr string) []raceReport {
	var out []raceReport
	curRun := int64(-1)
	var curSeed uint64
	lines := strings.Split(stderr, "\n")
	for i := 0; i < len(lines); i++ {
		ln := lines[i]
		if m := runMarkRE.FindStringSubmatch(ln); m != nil {
			r, _ := strconv.ParseInt(m[1], 10, 64)
			s, _ := strconv.ParseUint(m[2], 10, 64)
			curRun, curSeed = r, s
			continue
		}
		if strings.HasPrefix(ln, "@@END") {
			curRun = -1
			continue
		}
		if !strings.HasPrefix(ln, "WARNING: DATA RACE") {
			continue
		}
		j := i + 1
		var body []string
		for ; j < len(lines) && !strings.HasPrefix(lines[j], "=================="); j++ {
			if strings.HasPrefix(lines[j], "@@") {
				continue
			}
			body = append(body, lines[j])
		}
		i = j
		out = append(out, classifyRace(curRun, curSeed, body))
	}
	return out
}

// isLibFrame: a source file of the scratch copy that is neither harness nor
// simulator runtime.
func isLibFrame(path, scratch string) bool {
	if !strings.HasPrefix(path, scratch+"/") {
		return false
	}
	rel := strings.TrimPrefix(path, scratch+"/")
	return !strings.HasPrefix(rel, "zsim/") && !strings.HasPrefix(rel, "internal/zsimrt/") && !strings.HasPrefix(rel, "internal/zsync/") && !strings.HasPrefix(rel, "internal/zatomic/") && !strings.HasPrefix(rel, "internal/ztime/")
}

var scratchRoot string // set by the orchestrator once the scratch copy exists

// defaultGOMAXPROCS is 1 for simulated runs (one baton holder at a time) and 4 in
// the degraded mode (real parallel goroutines).
var defaultGOMAXPROCS = 1

func classifyRace(run int64, seed uint64, body []string) raceReport {
	rr := raceReport{Run: run, Seed: seed, Text: strings.Join(body, "\n")}
	// sections: the first two stacks are the accesses; "Goroutine N (...) created at:" stacks follow
	section := -1
	for _, ln := range body {
		t := strings.TrimSpace(ln)
		switch {
		case strings.HasPrefix(t, "Read at"), strings.HasPrefix(t, "Write at"), strings.HasPrefix(t, "Previous read at"),
			strings.HasPrefix(t, "Previous write at"), strings.HasPrefix(t, "Atomic read at"), strings.HasPrefix(t, "Atomic write at"),
			strings.HasPrefix(t, "Previous atomic read at"), strings.HasPrefix(t, "Previous atomic write at"):
			section++
			if section < 2 {
				rr.Accesses[section] = strings.SplitN(t, " at ", 2)[0]
			}
			continue
		case strings.HasPrefix(t, "Goroutine "):
			section = 99
			continue
		}
		if section < 0 || section > 1 {
			continue
		}
		if m := frameFileRE.FindStringSubmatch(ln); m != nil && isLibFrame(m[1], scratchRoot) {
			loc := strings.TrimPrefix(m[1], scratchRoot+"/") + ":" + m[2]
			rr.HasLib = true
			if section == 0 && rr.LibA == "" {
				rr.LibA = loc
			}
			if section == 1 && rr.LibB == "" {
				rr.LibB = loc
			}
		}
	}
	a, b := rr.LibA, rr.LibB
	if a == "" {
		a = "caller"
	}
	if b == "" {
		b = "caller"
	}
	pair := []string{a, b}
	sort.Strings(pair)
	rr.Sig = "O3/" + pair[0] + "~" + pair[1]
	return rr
}
