#!/usr/bin/env python3
"""Extract the `input:` string literals of the repository's tests (+ a hand-written
list covering every operator, literal kind, failure and known panic) as JSON lines.
One-off tool: its output, classified by classify.go, is committed as
/verif/sim/overlay/zsim/queries.txt and json.txt."""
import json, re, sys
out = []
for f in ["/repo/parse_test.go", "/repo/postgresql_test.go", "/repo/pkg/driver/postgresql_test.go", "/repo/fuzz/fuzz_test.go", "/repo/internal/lex/lext_test.go"]:
    src = open(f).read()
    for m in re.finditer(r'(?:input|in):\s*("(?:[^"\\]|\\.)*"|`[^`]*`)', src):
        lit = m.group(1)
        if lit[0] == '`':
            s = lit[1:-1]
        else:
            s = json.loads(lit.replace("\\'", "'")) if "\\x" not in lit else None
        if s is not None and "\n" not in s:
            out.append(s)
    for m in re.finditer(r'^\s*("(?:[^"\\]|\\.)*"|`[^`]*`),\s*$', src, re.M):
        lit = m.group(1)
        s = lit[1:-1] if lit[0] == '`' else json.loads(lit)
        if "\n" not in s:
            out.append(s)
extra = [
 # every operator / literal kind
 'a:b', 'a:"b c"', "a:'b c'", 'a:5', 'a:-5', 'a:5.5', 'a:-0.25', 'a:1e3', 'a:b*', 'a:b?c', 'a:*', 'a:?',
 'a:/re.*x/', 'a:/a b/', 'a = b', 'a=b', 'a:b AND c:d', 'a:b and c:d', 'a:b OR c:d', 'a:b or c:d', 'NOT a:b', 'not a:b',
 'a:b c:d', 'a:b c:d e:f', 'a:b OR c:d e:f', '(a:b)', '((a:b))', '(a:b OR c:d) AND e:f', 'a:b AND (c:d OR e:f)',
 '+a:b', '-a:b', '+a:b -c:d', '+(a:b c:d)', '-(a:b OR c:d)', 'a:b~', 'a:b~2', 'a:b^', 'a:b^2', 'a:b^0.5', '(a:b OR c:d)^3', '(a:b c:d)~',
 'a:[1 TO 5]', 'a:{1 TO 5}', 'a:[1 TO 5}', 'a:{1 TO 5]', 'a:[* TO 5]', 'a:[1 TO *]', 'a:[* TO *]', 'a:[1.5 TO 2.5]', 'a:{-1 TO 1}',
 'a:[abc TO abd]', 'a:["a a" TO "b b"]', 'a:[2020-01-01 TO 2021-01-01]', 'a:>1', 'a:>=1', 'a:<1', 'a:<=1', 'a:>1.5', 'a:<=-2', 'a:>b',
 'a:(x OR y)', 'a:(x OR y OR z)', 'a:(1 OR 2 OR 3)', 'a:(x OR "y z" OR 3)', 'a:(x y)', 'a:(x AND y)', 'a:(x OR y*)',
 'b', '"b c"', '5', 'b*', '/re/', 'b AND c', 'b OR c', 'NOT b', 'b c', '+b', '-b', 'b~', 'b^2', '(b)',
 'my\\ field:b', 'a\\:b:c', 'a:b\\ c', 'a:it\\\'s', "a:\"it's\"", 'a:"O\'Brien"', 'a:"x\'; DROP TABLE t;--"', "a:'\"'", 'a.b:c', 'a-b:c', 'a_b:c', 'a:b-c', 'a:b.c',
 'café:naïve', 'поле:значение', 'a:日本語', 'a:"日本 語"', 'A:B AND NOT C:D', 'a:b AND NOT (c:d OR NOT e:f)', 'NOT NOT a:b', 'NOT (NOT a:b)',
 'a:b AND c:d OR e:f AND g:h', 'a:b OR c:d AND e:f OR g:h', 'a:b AND c:d AND e:f', 'a:b OR c:d OR e:f', 'a:1 AND b:[2 TO 3] AND c:>4 OR d:"e f"~2',
 'a:b\tAND\tc:d', 'a:b\r AND c:d', '  a:b  ', 'a: b', 'a :b', 'a : b', 'TO', 'a:TO', 'a:to', 'a:AND', 'AND:b', 'a:"AND"', 'a:NOT',
 'a:"" ', 'a:""', '"":b', '"a b":c', "'a b':c", '"a""b":c', 'a:"b\\"c"',
 'title:(+return +"pink panther")', 'title:"The Right Way" AND text:go', 'mod_date:[20020101 TO 20030101]', 'title:{Aida TO Carmen}',
 'jakarta^4 apache', '"jakarta apache"^4 "Apache Lucene"', '"jakarta apache"~10', 'roam~0.8', 'te?t', 'test*', 'te*t',
 '(jakarta OR apache) AND website', 'a:b AND c:[1 TO 5] OR NOT d:e*', 'a:b^2 OR c:d~1', 'x:y AND (z:[* TO 9] OR w:{a TO *})',
 'a:0', 'a:00', 'a:-0', 'a:0.0', 'a:.5', 'a:5.', 'a:1_000', 'a:0x10', 'a:9223372036854775807', 'a:9223372036854775808', 'a:1e400', 'a:NaN', 'a:Inf', 'a:-Inf', 'a:+5',
 'a:[1 TO 5] AND a:[1.0 TO 5.0]', 'a:[NaN TO 5]', 'a:[Inf TO *]', 'a:[1e3 TO 1e4]', 'a:{"1" TO "5"}', 'a:[b* TO c?]', 'a:[/x/ TO /y/]',
 # failures
 '', ' ', 'a:', ':b', 'a:b AND', 'AND a:b', 'OR', 'NOT', '(', ')', '()', '(a:b', 'a:b)', 'a:[1 TO', 'a:[1 TO 5', 'a:[1 5]', 'a:[TO]', 'a:[1 TO 2 TO 3]', 'a:{1 TO}',
 '"unterminated', "'unterminated", '/unterminated', 'a:b~x', 'a:b^x', 'a:b^-1', 'a:b~-1', 'a::b', 'a:b:c', 'a:>', 'a:>=', 'a:><1', 'a:=>1', 'a:!b', 'a:b#', 'a;b', 'a:b&&c:d', 'a:b||c:d', '!a:b', 'a:%', 'a:[* TO 5] TO', 'a:(b', 'a:(b OR', 'a:()', '+', '-', '~', '^', '~a', '^a', '+-a', 'a AND OR b', 'a:b\x00', 'a\x00:b', 'a:"\x00"', 'a:\xff', '\\', 'a:\\', 'a:b\\',
 'a:[1 TO 5]^2', 'a:[1 TO 5]~', '(a:[1 TO 5])', 'NOT a:[1 TO 5]', '+a:[1 TO 5]', 'a:(b)', 'a:(b OR (c OR d))', 'a:((b OR c) OR d)', 'a:(b OR c)~', 'a:(b OR c)^2',
 'a:b AND (', 'a:b OR )', ')(', '[', ']', '{', '}', 'a:[', 'a:]', '[1 TO 5]', '{1 TO 5}', 'a:[(1) TO 5]', 'a:[1 TO (5)]', 'a:[1 OR 2 TO 5]', 'a:[a:b TO 5]',
 'a:b=c', 'a=b=c', 'a=[1 TO 5]', 'a=>5', 'a=(b OR c)', 'a = "b c"', 'a=b*', 'a=/x/', 'a:=b', 'a:>=b', 'a:<"b c"', 'a:>[1 TO 2]', 'a:>(b)', 'a:>b*',
 # normalisation bait: duplicates, unsorted lists, inverted ranges, case variants, redundant structure
 'a:(x OR x OR y OR z)', 'a:(x OR y OR x)', 'a:(z OR y OR x)', 'a:(3 OR 1 OR 2 OR 1)', 'a:(b OR a)', 'a:(x OR X)', 'a:(x OR "x")', 'a:(1 OR 1.0 OR "1")',
 'a:(v1 OR v2 OR v3 OR v4 OR v5 OR v6 OR v7 OR v8 OR v9 OR v10 OR v1)', 'a:(x OR x)', 'a:(x OR x OR x OR x)',
 'a:b AND a:b', 'a:b OR a:b', 'a:b AND a:b AND a:b', 'a:b a:b', '+a:b +a:b', 'a:b AND b:a', 'b:a AND a:b', 'a:B OR a:b', 'A:b OR a:b',
 'a:[5 TO 1]', 'a:[b TO a]', 'a:{9 TO 9}', 'a:[1 TO 1]', 'a:[* TO *] AND a:[* TO *]', 'a:b* OR a:b*', 'a:/x/ OR a:/x/', 'a:"" OR a:""',
 'a:"x" OR a:\'x\'', 'a:x~ OR a:x~', 'a:x^2 OR a:x^2', '(a:b) AND ((a:b))', 'NOT a:b AND NOT a:b', 'a:b AND (c:d AND (e:f AND (g:h AND i:j)))',
 '((((a:b AND c:d) AND e:f) AND g:h) AND i:j)', 'a:1 OR a:2 OR a:3 OR a:4 OR a:5 OR a:6 OR a:7 OR a:8', 'z:1 y:2 x:3 w:4 v:5 u:6',
 'a:(x OR y) AND b:(x OR y)', 'a:(x OR y) OR a:(y OR x)', 'a:>1 AND a:>1', 'a:<=5 a:<=5', 'a:[1 TO 5] OR a:[1 TO 5]',
 'x AND y AND z', 'x OR y OR z', 'x y z', 'x AND y z', 'x y AND z', 'x OR y z', 'x y OR z', 'x NOT y', 'x AND NOT y', 'x OR NOT y', 'NOT x y', 'NOT x AND y', 'NOT x OR y', '+x -y z', '+x AND -y', 'x~ y^', 'x^2 y~3', '"x y"~2 z', 'x:1 y:2 z:3', 'x:1 OR y:2 z:3 AND w:4',
]
# position bait: every literal kind where a field name is expected, keywords and wildcards in odd places
extra += ['*:foo', '*:*', '*:[1 TO 2]', '*:[* TO *]', '?:x', 'b*:c', 'f?o:bar', '/re/:x', '5:x', '-5:x', '1.5:[1 TO 2]', '"q s":*', "'q':'*'", 'x:* AND *:y',
 '*:foo AND a:*', 'a:[* TO 5] AND *:b', '* AND *', '* OR a:*', 'NOT *', '+* -*', '*~', '*^2', '(*)', 'a:(* OR b)', 'a:(* OR *)', '*:(x OR y)', 'TO:TO', 'a:[TO TO TO]', 'NOT:NOT', 'or:and',
 'a:* AND b:* AND c:*', 'c:*', 'x:y AND z:*', 'a:{* TO 5}', 'a:[5 TO *] OR b:*']
# size bait: capacities and thresholds (16, 32, 64, 256) that pooling / scratch-buffer code tends to use
def vals(n, pre="v"): return " OR ".join("%s%02d" % (pre, i) for i in range(1, n + 1))
extra += [
 'a:(%s)' % vals(16), 'a:(%s)' % vals(17), 'a:(%s)' % vals(20), 'a:(%s)' % vals(33), 'a:(%s)' % vals(70),
 'a:(%s) AND b:(x OR y OR z)' % vals(20), 'b:(x OR y OR z) AND a:(%s)' % vals(18, "w"), 'a:(%s)' % " OR ".join(str(i) for i in range(1, 41)),
 " AND ".join("f%d:%d" % (i, i) for i in range(1, 41)), " OR ".join("f%d:v%d" % (i, i) for i in range(1, 70)), " ".join("t%d" % i for i in range(1, 35)),
 "(" * 20 + "a:b" + ")" * 20, "NOT " * 12 + "a:b", "+" + "(" * 9 + "a:b AND c:d" + ")" * 9,
 'a:' + "x" * 300, 'a:"' + "y z " * 80 + '"', "k" * 200 + ":v", 'a:[%s TO %s]' % ("1" * 18, "9" * 18), 'a:/%s/' % ("ab+" * 60),
 " AND ".join("a:(x OR y OR z)" for _ in range(12)), " OR ".join("a:[%d TO %d]" % (i, i + 5) for i in range(20)),
]
seen = set(); res = []
for s in out + extra:
    if s in seen: continue
    seen.add(s); res.append(s)
for s in res:
    print(json.dumps(s))
